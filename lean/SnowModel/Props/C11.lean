/-
C11 — bounded random functions stay inside their bounds and can reach both ends.
Property theorems only (helper lemmas live in `SnowModel/Proofs/C11*.lean`).
The model is `SnowModel/Core/Bounded.lean`; every random draw is an explicit argument and
all theorems quantify over *every* admissible draw.
-/
import SnowModel.Core.Bounded
import SnowModel.Proofs.C11
import SnowModel.Proofs.C11Render

namespace SnowModel.Props.C11
open SnowModel.Bounded

/-! ### `random_number` -/

/-- **Lattice.** For `step ≥ 1`, every value `random_number(min, max, step)` can return is
    `min + step·k`, lies in `[min, max]`, and differs from `min` by a multiple of `step`. -/
theorem random_number_lattice (min max step : Int) (k : Nat) (x : Int) (hs : 1 ≤ step)
    (h : randomNumber min max step k = .value x) :
    x = min + step * k ∧ min ≤ x ∧ x ≤ max ∧ step ∣ (x - min) := by
  obtain ⟨_, hk, hx⟩ := Proofs.C11.randrange_value _ _ _ _ _ h
  simp only [rnStart, rnStop, rnStep] at hk hx
  have := (Proofs.C11.rrCount_pos_iff min (max + 1) step k (by omega)).1 hk
  have hk0 : (0 : Int) ≤ step * k := Int.mul_nonneg (by omega) (by omega)
  refine ⟨hx, by omega, by omega, ?_⟩
  rw [hx]
  exact ⟨k, by omega⟩

/-- Size of the lattice: `⌊(max − min) / step⌋ + 1` points when `min ≤ max`. -/
theorem random_number_count (min max step : Int) (hs : 1 ≤ step) (hmm : min ≤ max) :
    rnCount min max step = (max - min) / step + 1 :=
  Proofs.C11.rnCount_eq min max step hs hmm

/-- **No spurious failure.** With `step ≥ 1` and `min ≤ max` every admissible draw yields a
    value (never an error). -/
theorem random_number_total (min max step : Int) (k : Nat) (hs : 1 ≤ step) (_hmm : min ≤ max)
    (hk : (k : Int) < rnCount min max step) :
    randomNumber min max step k = .value (min + step * k) := by
  unfold rnCount at hk
  unfold randomNumber randrange
  have h0 : ¬ rnStep min max step = 0 := by simp [rnStep]; omega
  have h1 : ¬ rrCount (rnStart min max step) (rnStop min max step) (rnStep min max step) ≤ 0 := by
    omega
  rw [if_neg h0, if_neg h1, if_pos hk]
  simp [rnStart, rnStep]

/-- **Both ends are attainable (low end).** The draw `0` gives `min`. -/
theorem random_number_low_end (min max step : Int) (hs : 1 ≤ step) (hmm : min ≤ max) :
    randomNumber min max step 0 = .value min := by
  have hc := random_number_count min max step hs hmm
  have hq : 0 ≤ (max - min) / step := Int.ediv_nonneg (by omega) (by omega)
  have := random_number_total min max step 0 hs hmm (by rw [hc]; simp; omega)
  simpa using this

/-- **Both ends are attainable (high end).** The largest admissible draw `n − 1` gives the
    greatest lattice point `max − (max − min) mod step`; it is `max` itself exactly when
    `step ∣ max − min` (in particular for `step = 1`). -/
theorem random_number_high_end (min max step : Int) (hs : 1 ≤ step) (hmm : min ≤ max) :
    randomNumber min max step (rnCount min max step - 1).toNat
      = .value (max - (max - min) % step) := by
  have hc := random_number_count min max step hs hmm
  have hq : 0 ≤ (max - min) / step := Int.ediv_nonneg (by omega) (by omega)
  have hk : (((rnCount min max step - 1).toNat : Nat) : Int) = (max - min) / step := by
    rw [hc]; omega
  have := random_number_total min max step _ hs hmm (by rw [hk, hc]; omega)
  rw [this, hk]
  congr 1
  have := Int.mul_ediv_add_emod (max - min) step
  omega

theorem random_number_high_end_exact (min max step : Int) (hs : 1 ≤ step) (hmm : min ≤ max)
    (hd : step ∣ max - min) :
    randomNumber min max step (rnCount min max step - 1).toNat = .value max := by
  rw [random_number_high_end min max step hs hmm, Int.emod_eq_zero_of_dvd hd]
  simp

/-- **Every lattice point is attainable**, by exactly the draw `(x − min) / step`. -/
theorem random_number_complete (min max step x : Int) (hs : 1 ≤ step)
    (h1 : min ≤ x) (h2 : x ≤ max) (hd : step ∣ x - min) :
    ∃ k : Nat, (k : Int) < rnCount min max step ∧ randomNumber min max step k = .value x := by
  obtain ⟨q, hq⟩ := hd
  have hq0 : 0 ≤ q := by
    rcases Int.lt_or_le q 0 with hneg | hpos
    · have : step * q < 0 := Int.mul_neg_of_pos_of_neg (by omega) hneg
      omega
    · exact hpos
  refine ⟨q.toNat, ?_, ?_⟩
  · unfold rnCount
    rw [Proofs.C11.rrCount_pos_iff _ _ _ _ (by simp [rnStep]; omega)]
    simp only [rnStart, rnStop, rnStep]
    have : ((q.toNat : Nat) : Int) = q := by omega
    rw [this]; omega
  · have hk : (((q.toNat : Nat)) : Int) = q := by omega
    have hlt : ((q.toNat : Nat) : Int) < rnCount min max step := by
      unfold rnCount
      rw [Proofs.C11.rrCount_pos_iff _ _ _ _ (by simp [rnStep]; omega)]
      simp only [rnStart, rnStop, rnStep]
      rw [hk]; omega
    rw [random_number_total min max step _ hs (by omega) hlt, hk]
    congr 1; omega

/-- **Empty range ⇒ error**, whatever the draw. -/
theorem random_number_empty (min max step : Int) (k : Nat) (hs : 1 ≤ step) (h : max < min) :
    randomNumber min max step k = .emptyRange := by
  unfold randomNumber randrange
  have h0 : ¬ rnStep min max step = 0 := by simp [rnStep]; omega
  have h1 : rrCount (rnStart min max step) (rnStop min max step) (rnStep min max step) ≤ 0 := by
    have := (Proofs.C11.rrCount_pos_iff (rnStart min max step) (rnStop min max step)
      (rnStep min max step) 0 (by simp [rnStep]; omega))
    simp only [rnStart, rnStop, rnStep] at this ⊢
    omega
  rw [if_neg h0, if_pos h1]

theorem random_number_zero_step (min max : Int) (k : Nat) :
    randomNumber min max 0 k = .zeroStep := by
  simp [randomNumber, randrange, rnStep]

/-- **Negative step** (accepted by the code, not documented): the lattice runs downwards from
    `min`; the exclusive stop is `max + 1`, so values satisfy `max + 1 < x ≤ min`. -/
theorem random_number_neg_step_lattice (min max step : Int) (k : Nat) (x : Int) (hs : step < 0)
    (h : randomNumber min max step k = .value x) :
    x = min + step * k ∧ x ≤ min ∧ max + 1 < x ∧ step ∣ (x - min) := by
  obtain ⟨_, hk, hx⟩ := Proofs.C11.randrange_value _ _ _ _ _ h
  simp only [rnStart, rnStop, rnStep] at hk hx
  have := (Proofs.C11.rrCount_neg_iff min (max + 1) step k hs).1 hk
  have hk0 : step * (k : Int) ≤ 0 := Int.mul_nonpos_of_nonpos_of_nonneg (by omega) (by omega)
  refine ⟨hx, by omega, by omega, ?_⟩
  rw [hx]
  exact ⟨k, by omega⟩

example : randomNumber 12 23 5 2 = .value 22 := by decide
example : randomNumber (-7) (-7) 1 0 = .value (-7) := by decide
example : rnCount 12 23 5 = 3 := by decide
example : randomNumber 10 0 (-3) 2 = .value 4 := by decide

/-! ### `random_number` as a recipe writes it (default dialect: `str` + `look_for_number`) -/

/-- **An integer survives the v2 re-rendering, for every integer** — whatever its size (no
    rounding through a float above `2^53`): a positive one comes back as the same `int`; `0` and
    negative ones come back as their decimal text (the leading-zero rule, and `-` is not a number
    character), which still denotes the same integer. -/
theorem render_v2_identity (x : Int) : ∃ v, renderV2 x = .ok v ∧ valAsInt v = some x := by
  rcases Proofs.C11Render.renderV2_cases x with ⟨_, h⟩ | ⟨_, h⟩
  · exact ⟨_, h, rfl⟩
  · exact ⟨_, h, Proofs.C11Render.valAsInt_str_intToStr x⟩

theorem render_v2_pos (x : Int) (h : 0 < x) : renderV2 x = .ok (.int x) := by
  rcases Proofs.C11Render.renderV2_cases x with ⟨_, h'⟩ | ⟨h0, _⟩
  · exact h'
  · omega

theorem render_v2_nonpos (x : Int) (h : x ≤ 0) : renderV2 x = .ok (.str (L2.intToStr x)) := by
  rcases Proofs.C11Render.renderV2_cases x with ⟨h0, _⟩ | ⟨_, h'⟩
  · omega
  · exact h'

/-- **Inline form `${{random_number(min=…, max=…, step=…)}}`**: the value the output stream
    receives after re-rendering denotes exactly the drawn value, so it is on the lattice, inside
    the bounds, and both ends are produced by the extreme draws. -/
theorem random_number_inline_v2 (min max step : Int) (k : Nat) (x : Int) (hs : 1 ≤ step)
    (h : randomNumber min max step k = .value x) :
    ∃ v, renderV2 x = .ok v ∧ valAsInt v = some x ∧
      min ≤ x ∧ x ≤ max ∧ step ∣ (x - min) := by
  obtain ⟨v, hv, hx⟩ := render_v2_identity x
  obtain ⟨_, h1, h2, h3⟩ := random_number_lattice min max step k x hs h
  exact ⟨v, hv, hx, h1, h2, h3⟩

/-- The object seen for a written integer always converts back to that integer: it is the `int`
    itself, or (default dialect, `0` and negatives) its decimal text. -/
theorem coerce_argSeen (mode : ArgMode) (x : Int) :
    coerceArg .strToInt (argSeen mode x) = .ok x := by
  cases mode with
  | native => rfl
  | formulaV2 =>
    unfold argSeen
    rcases Proofs.C11Render.renderV2_cases x with ⟨_, h⟩ | ⟨_, h⟩
    · simp only [h]; rfl
    · simp only [h, coerceArg]
      have : (L2.intToStr x).toInt? = some x := by
        have := Proofs.C11Render.valAsInt_str_intToStr x
        simpa [valAsInt] using this
      rw [this]

/-- **Arguments as a recipe writes them — full strength** (refuted before 6be3bcb — D54).  For every
    `(min, max, step)` — zero, negative and arbitrarily large values included — and both ways the
    arguments can reach the function (native ints: literal YAML, keyword arguments, the v3 dialect;
    or formula-valued arguments of the default dialect, re-rendered through `look_for_number`),
    `random_number` behaves exactly as on the written integers: all the lattice, bounds, attainability
    and error theorems above apply verbatim. -/
theorem random_number_formula_args (mode : ArgMode) (min max step : Int) (k : Nat) :
    randomNumberVia mode min max step k = .out (randomNumber min max step k) := by
  simp only [randomNumberVia, randomNumberViaWith, randomNumberObj, codeArgConv, coerce_argSeen]

/-- In particular the D54 input `min: ${{0 - 5}}`, `max: ${{0 - 3}}` draws from `-5 … -3`. -/
theorem random_number_formula_args_lattice (mode : ArgMode) (min max step : Int) (k : Nat) (x : Int)
    (hs : 1 ≤ step) (h : randomNumberVia mode min max step k = .out (.value x)) :
    x = min + step * k ∧ min ≤ x ∧ x ≤ max ∧ step ∣ (x - min) := by
  rw [random_number_formula_args] at h
  injection h with h
  exact random_number_lattice min max step k x hs h

/-- **A non-numeric string argument** (`min: abc`) is a `ValueError` from `int(…)` (a recipe error
    when it comes from a recipe), never a value. -/
theorem random_number_nonnumeric_string (s : String) (b c : PyArg) (k : Nat) (h : s.toInt? = none) :
    randomNumberObj codeArgConv (.str s) b c k = .valueError := by
  simp [randomNumberObj, coerceArg, codeArgConv, h]

/-- A numeric string (`min: "12"` in the v3 dialect, where it stays a string) is converted. -/
theorem random_number_numeric_string (s : String) (i : Int) (b c : Int) (k : Nat)
    (h : s.toInt? = some i) :
    randomNumberObj codeArgConv (.str s) (.int b) (.int c) k = .out (randomNumber i b c k) := by
  simp [randomNumberObj, coerceArg, codeArgConv, h]

/-- **The old behaviour (no conversion, before 6be3bcb)**, as a statement about the explicitly
    parameterised `ArgConv.asIs`: a formula-valued argument that is `0` or negative made the call
    fail with a TypeError, exactly then. -/
theorem random_number_formula_args_old_typeError_iff (min max step : Int) (k : Nat) :
    randomNumberViaWith .asIs .formulaV2 min max step k = .typeError ↔
      (min ≤ 0 ∨ max ≤ 0 ∨ step ≤ 0) := by
  have seen : ∀ x : Int, coerceArg .asIs (argSeen .formulaV2 x)
      = if 0 < x then .ok x else .error .typeError := by
    intro x
    unfold argSeen
    rcases Proofs.C11Render.renderV2_cases x with ⟨h0, h⟩ | ⟨h0, h⟩
    · simp [h, h0, coerceArg]
    · have : ¬ 0 < x := by omega
      simp [h, this, coerceArg]
  simp only [randomNumberViaWith, randomNumberObj, seen]
  by_cases h1 : 0 < min <;> by_cases h2 : 0 < max <;> by_cases h3 : 0 < step <;>
    simp [h1, h2, h3] <;> omega

example : renderV2 9007199254740993 = .ok (.int 9007199254740993) := render_v2_pos _ (by decide)
example : randomNumberVia .formulaV2 9007199254740993 9007199254741001 2 4
    = .out (.value 9007199254741001) := by
  rw [random_number_formula_args]; decide
example : randomNumberVia .formulaV2 (-5) (-3) 1 2 = .out (.value (-3)) := by
  rw [random_number_formula_args]; decide
-- (`"abc".toInt? = none` does not reduce in the kernel; the driver evaluates it and the harness
-- compares `min: abc` with the real code on every run.)

/-! ### `random_choice` -/

/-- **Support.** Whatever the draw, the option picked by the weighted selection exists and has
    a strictly positive weight: an option with weight 0 is never returned. -/
theorem choice_support (ws : List (Option Nat)) (x i : Nat)
    (h : weightedIndex ws x = .picked i) :
    ∃ p, ws[i]? = some (some p) ∧ 0 < p := by
  obtain ⟨w, hw, hx⟩ := Proofs.C11.weightedIndex_picked_inv ws x i h
  have hi := (Proofs.C11.weightedIndex_picked_iff ws w x i hw hx).1 h
  rw [Proofs.C11.prefixSum_succ] at hi
  have hp : 0 < w.getD i 0 := by omega
  have hlt := Proofs.C11.getD_pos_lt w i hp
  rw [Proofs.C11.allSome_length ws w hw] at hlt
  exact ⟨_, Proofs.C11.allSome_get ws w hw i hlt, hp⟩

/-- **Exact selection rule.** With all weights present and a draw `x < total`, option `i` is
    picked exactly when `x` falls into `i`'s weight interval
    `[w₀+…+w_{i-1}, w₀+…+w_i)`.  (So option `i` is picked by exactly `w_i` of the `total`
    possible draws.) -/
theorem choice_pick_iff (ws : List (Option Nat)) (w : List Nat) (x i : Nat)
    (hw : allSome ws = some w) (hx : x < sumW w) :
    weightedIndex ws x = .picked i ↔ (prefixSum w i ≤ x ∧ x < prefixSum w (i + 1)) :=
  Proofs.C11.weightedIndex_picked_iff ws w x i hw hx

/-- **Every option with a positive weight is attainable.** -/
theorem choice_attainable (ws : List (Option Nat)) (w : List Nat) (i : Nat)
    (hw : allSome ws = some w) (hp : 0 < w.getD i 0) :
    ∃ x, x < sumW w ∧ weightedIndex ws x = .picked i := by
  have h1 := Proofs.C11.prefixSum_succ w i
  have h2 := Proofs.C11.prefixSum_le_sum w (i + 1)
  refine ⟨prefixSum w i, by omega, ?_⟩
  rw [Proofs.C11.weightedIndex_picked_iff ws w _ i hw (by omega)]
  omega

/-- **The option with all the weight is always picked.** -/
theorem choice_all_weight (ws : List (Option Nat)) (w : List Nat) (x j : Nat)
    (hw : allSome ws = some w) (hx : x < sumW w) (hall : w.getD j 0 = sumW w) :
    weightedIndex ws x = .picked j := by
  obtain ⟨i, hi⟩ : ∃ i, weightedIndex ws x = .picked i := by
    have hlen := Proofs.C11.allSome_length ws w hw
    have hne : w ≠ [] := by intro h; subst h; simp [sumW] at hx
    obtain ⟨i, _, _, h1, h2⟩ := Proofs.C11.scan_spec x w 0 0 hne (Nat.zero_le _) (by omega)
    exact ⟨i, (Proofs.C11.weightedIndex_picked_iff ws w x i hw hx).2 ⟨by omega, by omega⟩⟩
  -- the picked option has positive weight; all the weight sits on `j`
  have hint := (Proofs.C11.weightedIndex_picked_iff ws w x i hw hx).1 hi
  rw [Proofs.C11.prefixSum_succ] at hint
  rcases Nat.lt_trichotomy i j with hlt | heq | hgt
  · have h1 := Proofs.C11.prefixSum_mono w (show i + 1 ≤ j by omega)
    have h2 := Proofs.C11.prefixSum_succ w j
    have h3 := Proofs.C11.prefixSum_le_sum w (j + 1)
    have h4 := Proofs.C11.prefixSum_succ w i
    omega
  · rw [hi, heq]
  · have h1 := Proofs.C11.prefixSum_mono w (show j + 1 ≤ i by omega)
    have h2 := Proofs.C11.prefixSum_succ w j
    have h3 := Proofs.C11.prefixSum_le_sum w (i + 1)
    have h4 := Proofs.C11.prefixSum_succ w i
    omega

/-- A draw inside `[0, total)` never fails; which error (if any) occurs does not depend on the
    draw. -/
theorem choice_outcome_kind (ws : List (Option Nat)) (x : Nat) :
    (ws = [] ∧ weightedIndex ws x = .noChoices) ∨
    (ws ≠ [] ∧ none ∈ ws ∧ weightedIndex ws x = .typeError) ∨
    (∃ w, ws ≠ [] ∧ allSome ws = some w ∧
      ((sumW w = 0 ∧ weightedIndex ws x = .totalNotPositive) ∨
       (0 < sumW w ∧ sumW w ≤ x ∧ weightedIndex ws x = .badDraw) ∨
       (x < sumW w ∧ ∃ i, weightedIndex ws x = .picked i))) := by
  cases ws with
  | nil => left; exact ⟨rfl, rfl⟩
  | cons a ws =>
    right
    cases hw : allSome (a :: ws) with
    | none =>
      left
      refine ⟨by simp, (Proofs.C11.allSome_none_iff _).1 hw, ?_⟩
      simp [weightedIndex, hw]
    | some w =>
      right
      refine ⟨w, by simp, rfl, ?_⟩
      by_cases h0 : sumW w = 0
      · left; exact ⟨h0, by simp [weightedIndex, hw, h0]⟩
      · right
        by_cases hx : x < sumW w
        · right; exact ⟨hx, bisectScan x (cumFrom 0 w) 0, by simp only [weightedIndex, hw, if_neg h0, if_pos hx]⟩
        · left; exact ⟨by omega, by omega, by simp only [weightedIndex, hw, if_neg h0, if_neg hx]⟩

/-- Uniform list: `random.choice` returns a listed element (index below the length) and every
    index is attainable. -/
theorem choice_list_support (n k i : Nat) (h : randomChoiceList n k = .picked i) : i < n ∧ i = k := by
  unfold randomChoiceList at h
  by_cases h0 : n = 0
  · rw [if_pos h0] at h; cases h
  · rw [if_neg h0] at h
    by_cases hk : k < n
    · rw [if_pos hk] at h; injection h with h; omega
    · rw [if_neg hk] at h; cases h

theorem choice_list_attainable (n i : Nat) (h : i < n) : randomChoiceList n i = .picked i := by
  unfold randomChoiceList
  rw [if_neg (by omega), if_pos h]

/-- The weight a `choice:` item contributes: the written probability as it is (also `0`);
    nothing when no probability was written (`when` is absent inside `random_choice`). -/
theorem choiceWeight_eq (r : RawW) : choiceWeight r = parseWeight r := by
  cases r <;> rfl

/-- `choice:` items and the mapping form select identically (for every list and every draw). -/
theorem choice_items_eq_kw (raws : List RawW) (x : Nat) :
    randomChoiceItems raws x = randomChoiceKw raws x := by
  unfold randomChoiceItems randomChoiceKw
  congr 1
  apply List.map_congr_left
  intro r _
  rw [choiceWeight_eq]; rfl

/-- `choice:` items: a picked item has a positive probability (an item with probability 0 is never
    returned). -/
theorem choice_items_support (raws : List RawW) (x i : Nat)
    (h : randomChoiceItems raws x = .picked i) :
    ∃ r p, raws[i]? = some r ∧ parseWeight r = some p ∧ 0 < p := by
  obtain ⟨p, hp, hpos⟩ := choice_support _ x i h
  rw [List.getElem?_map] at hp
  cases hr : raws[i]? with
  | none => rw [hr] at hp; simp at hp
  | some r =>
    rw [hr] at hp
    simp only [Option.map_some, Option.some.injEq] at hp
    rw [choiceWeight_eq] at hp
    exact ⟨r, p, rfl, hp, hpos⟩

/-- **The item with all the weight is always picked** (full strength; refuted before cfed176 —
    D09 — because a written `0` became `None`).  `allSome …` says every item has a written
    probability; the items other than `j` may have probability 0. -/
theorem choice_items_all_weight (raws : List RawW) (w : List Nat) (x j : Nat)
    (hw : allSome (raws.map (fun r => choiceWeight r)) = some w) (hx : x < sumW w)
    (hall : w.getD j 0 = sumW w) :
    randomChoiceItems raws x = .picked j :=
  choice_all_weight _ w x j hw hx hall

/-- The D09 input: `probability: 0` (or `0%`) next to `100%` — every draw picks the second item. -/
theorem choice_items_zero_probability_never_picked (x : Nat) (hx : x < 100) :
    randomChoiceItems [.int 0, .pct 100] x = .picked 1 ∧
    randomChoiceItems [.pct 0, .pct 100] x = .picked 1 := by
  constructor
  · exact choice_items_all_weight [.int 0, .pct 100] [0, 100] x 1 rfl hx rfl
  · exact choice_items_all_weight [.pct 0, .pct 100] [0, 100] x 1 rfl hx rfl

/-- A `choice:` list fails with `TypeError` iff some item has no probability at all. -/
theorem choice_items_typeError_iff (raws : List RawW) (x : Nat) :
    randomChoiceItems raws x = .typeError ↔ ∃ r ∈ raws, parseWeight r = none := by
  unfold randomChoiceItems
  rcases choice_outcome_kind (raws.map (fun r => choiceWeight r)) x with
    ⟨he, h⟩ | ⟨_, hmem, h⟩ | ⟨w, hne, hw, h⟩
  · rw [h]
    have : raws = [] := by simpa using he
    subst this; simp
  · rw [h]
    simp only [true_iff]
    obtain ⟨r, hr, hrw⟩ := List.mem_map.1 hmem
    rw [choiceWeight_eq] at hrw
    exact ⟨r, hr, hrw⟩
  · have hnone : ¬ (none ∈ raws.map (fun r => choiceWeight r)) := by
      rw [← Proofs.C11.allSome_none_iff, hw]; simp
    have hl : ¬ weightedIndex (raws.map (fun r => choiceWeight r)) x = .typeError := by
      rcases h with ⟨_, h⟩ | ⟨_, _, h⟩ | ⟨_, i, h⟩ <;> rw [h] <;> simp
    constructor
    · intro h'; exact absurd h' hl
    · intro ⟨r, hr, hrw⟩
      exfalso; apply hnone
      refine List.mem_map.2 ⟨r, hr, ?_⟩
      rw [choiceWeight_eq, hrw]

/-- The mapping form: the option holding all the weight is picked by every draw. -/
theorem choice_kw_all_weight (raws : List RawW) (w : List Nat) (x j : Nat)
    (hw : allSome (raws.map kwWeight) = some w) (hx : x < sumW w) (hall : w.getD j 0 = sumW w) :
    randomChoiceKw raws x = .picked j :=
  choice_all_weight _ w x j hw hx hall

example : randomChoiceKw [.int 0, .pct 10, .int 3] 9 = .picked 1 := by decide
example : randomChoiceKw [.int 0, .pct 10, .int 3] 10 = .picked 2 := by decide
example : randomChoiceKw [.int 0, .pct 10, .int 0] 9 = .picked 1 := by decide
example : randomChoiceItems [.pct 30, .pct 30, .pct 30] 89 = .picked 2 := by decide
example : randomChoiceItems [.int 0, .pct 100] 99 = .picked 1 := by decide
example : randomChoiceItems [.pct 30, .none] 0 = .typeError := by decide

/-! ### `date_between` -/

/-- Outcome of `date_between` as a function of the resolved bounds. -/
theorem date_between_cases (today : Int) (s e : DateSpec) (k : Nat) :
    (resolveDate today e < resolveDate today s ∧ dateBetween today s e k = .null) ∨
    (resolveDate today s ≤ resolveDate today e ∧
      (((k : Int) ≤ 86400 * (resolveDate today e - resolveDate today s) ∧
          dateBetween today s e k = .value ((86400 * resolveDate today s + k) / 86400)) ∨
       (86400 * (resolveDate today e - resolveDate today s) < (k : Int) ∧
          dateBetween today s e k = .badDraw))) := by
  unfold dateBetween
  by_cases h : 86400 * resolveDate today s > 86400 * resolveDate today e
  · left; exact ⟨by omega, by simp only [if_pos h]⟩
  · right
    refine ⟨by omega, ?_⟩
    by_cases hk : (k : Int) ≤ 86400 * resolveDate today e - 86400 * resolveDate today s
    · left; exact ⟨by omega, by simp only [if_neg h, if_pos hk]⟩
    · right; exact ⟨by omega, by simp only [if_neg h, if_neg hk]⟩

/-- **Bounds.** Every date returned lies between the two resolved bounds (inclusive), for
    absolute, relative and `today` specifications and every admissible draw. -/
theorem date_between_bounds (today : Int) (s e : DateSpec) (k : Nat) (v : Int)
    (h : dateBetween today s e k = .value v) :
    resolveDate today s ≤ v ∧ v ≤ resolveDate today e := by
  rcases date_between_cases today s e k with ⟨_, h'⟩ | ⟨_, ⟨hk, h'⟩ | ⟨_, h'⟩⟩
  · rw [h'] at h; cases h
  · rw [h'] at h; injection h with h; omega
  · rw [h'] at h; cases h

/-- **Both ends (and every day in between) are attainable.** -/
theorem date_between_complete (today : Int) (s e : DateSpec) (v : Int)
    (h1 : resolveDate today s ≤ v) (h2 : v ≤ resolveDate today e) :
    ∃ k : Nat, (k : Int) ≤ 86400 * (resolveDate today e - resolveDate today s) ∧
      dateBetween today s e k = .value v := by
  refine ⟨(86400 * (v - resolveDate today s)).toNat, by omega, ?_⟩
  rcases date_between_cases today s e (86400 * (v - resolveDate today s)).toNat with
    ⟨_, _⟩ | ⟨_, ⟨hk, h'⟩ | ⟨_, _⟩⟩
  · omega
  · rw [h']; congr 1; omega
  · omega

theorem date_between_low_end (today : Int) (s e : DateSpec)
    (h : resolveDate today s ≤ resolveDate today e) :
    dateBetween today s e 0 = .value (resolveDate today s) := by
  rcases date_between_cases today s e 0 with ⟨_, _⟩ | ⟨_, ⟨hk, h'⟩ | ⟨_, _⟩⟩
  · omega
  · rw [h']; congr 1; omega
  · omega

theorem date_between_high_end (today : Int) (s e : DateSpec)
    (h : resolveDate today s ≤ resolveDate today e) :
    dateBetween today s e (86400 * (resolveDate today e - resolveDate today s)).toNat
      = .value (resolveDate today e) := by
  rcases date_between_cases today s e (86400 * (resolveDate today e - resolveDate today s)).toNat with
    ⟨_, _⟩ | ⟨_, ⟨hk, h'⟩ | ⟨_, _⟩⟩
  · omega
  · rw [h']; congr 1; omega
  · omega

/-- **Empty range ⇒ null** (the "empty range" error is swallowed), whatever the draw. -/
theorem date_between_empty (today : Int) (s e : DateSpec) (k : Nat)
    (h : resolveDate today e < resolveDate today s) : dateBetween today s e k = .null := by
  rcases date_between_cases today s e k with ⟨_, h'⟩ | ⟨_, _⟩
  · exact h'
  · omega

/-- Relative specifications are relative to the run's date: days and weeks are exact … -/
theorem resolve_rel_days (today n : Int) : resolveDate today (.rel { days := n }) = today + n := by
  simp only [resolveDate, RelSpec.toSeconds]; omega

theorem resolve_rel_weeks (today n : Int) :
    resolveDate today (.rel { weeks := n }) = today + 7 * n := by
  simp only [resolveDate, RelSpec.toSeconds]; omega

/-- … a year is `365.24` days and a month `30.42` days, rounded *down* to whole days. -/
theorem resolve_rel_years (today n : Int) :
    resolveDate today (.rel { years := n }) = today + (36524 * n) / 100 := by
  simp only [resolveDate, RelSpec.toSeconds]; omega

theorem resolve_rel_months (today n : Int) :
    resolveDate today (.rel { months := n }) = today + (3042 * n) / 100 := by
  simp only [resolveDate, RelSpec.toSeconds]; omega

/-- A past-relative start and a future-relative end always give a non-empty range containing
    today (the documented `-30d … +180d` pattern). -/
theorem date_between_rel_contains_today (today : Int) (r1 r2 : RelSpec)
    (h1 : r1.toSeconds ≤ 0) (h2 : 0 ≤ r2.toSeconds) :
    ∃ k : Nat, dateBetween today (.rel r1) (.rel r2) k = .value today := by
  obtain ⟨k, _, hk⟩ := date_between_complete today (.rel r1) (.rel r2) today
    (by simp only [resolveDate]; omega) (by simp only [resolveDate]; omega)
  exact ⟨k, hk⟩

example : dateBetween 19782 (.abs 19782) (.abs 19782) 0 = .value 19782 := by decide
example : dateBetween 20000 (.rel { days := -30 }) (.rel { days := 180 }) 86400 = .value 19971 := by
  decide
example : resolveDate 20000 (.rel { years := -1 }) = 19634 := by decide   -- 366 days back
example : resolveDate 20000 (.rel { years := 1 }) = 20365 := by decide    -- 365 days ahead

/-! ### `datetime()` normalisation and `datetime_between` -/

/-- Outcome of Faker's `date_time_between` on two instants. -/
theorem faker_between_value (S E : Int) (d : Nat) (v : Int) (h : fakerBetween S E d = .value v) :
    v = S / usPerSec * usPerSec + d ∧
      (((E / usPerSec - S / usPerSec ≤ 1) ∧ (d : Int) < usPerSec) ∨
       ((1 < E / usPerSec - S / usPerSec) ∧ (d : Int) ≤ (E / usPerSec - S / usPerSec) * usPerSec)) := by
  unfold fakerBetween at h
  simp only at h
  by_cases h1 : E / usPerSec - S / usPerSec ≤ 1
  · rw [if_pos h1] at h
    by_cases h2 : (d : Int) < usPerSec
    · rw [if_pos h2] at h; injection h with h; exact ⟨h.symm, Or.inl ⟨h1, h2⟩⟩
    · rw [if_neg h2] at h; cases h
  · rw [if_neg h1] at h
    by_cases h2 : (d : Int) ≤ (E / usPerSec - S / usPerSec) * usPerSec
    · rw [if_pos h2] at h; injection h with h; exact ⟨h.symm, Or.inr ⟨by omega, h2⟩⟩
    · rw [if_neg h2] at h; cases h

/-- **Bounds up to one second, always.** For *any* two instants with `S ≤ E` the value is
    less than one second before `S` and less than one second after `E`. -/
theorem faker_between_within_one_second (S E : Int) (d : Nat) (v : Int) (hSE : S ≤ E)
    (h : fakerBetween S E d = .value v) :
    S - usPerSec < v ∧ v < E + usPerSec := by
  obtain ⟨hv, hc⟩ := faker_between_value S E d v h
  have hmono : S / usPerSec ≤ E / usPerSec := Int.ediv_le_ediv (by decide) hSE
  simp only [usPerSec] at *
  omega

/-- **Exact bounds** when both instants are whole seconds and differ. -/
theorem faker_between_bounds (S E : Int) (d : Nat) (v : Int) (hlt : S < E)
    (hS : S % usPerSec = 0) (hE : E % usPerSec = 0)
    (h : fakerBetween S E d = .value v) : S ≤ v ∧ v ≤ E := by
  obtain ⟨hv, hc⟩ := faker_between_value S E d v h
  simp only [usPerSec] at *
  omega

/-- **Faker's equal-bounds behaviour** (the reason for e0d1353): `date_time_between` with
    `start = end` returns `start + random()`, after `end` for every draw but `0`.
    `datetime_between` no longer hands equal bounds to Faker (`datetime_between_equal_bounds`). -/
theorem faker_between_equal_bounds_overshoots :
    ∃ (S : Int) (d : Nat) (v : Int), S % usPerSec = 0 ∧ fakerBetween S S d = .value v ∧ S < v :=
  ⟨0, 634706, 634706, by decide, by decide, by decide⟩

theorem faker_between_equal_bounds (S : Int) (d : Nat) (hS : S % usPerSec = 0)
    (hd : (d : Int) < usPerSec) : fakerBetween S S d = .value (S + d) := by
  unfold fakerBetween
  simp only [Int.sub_self]
  rw [if_pos (by decide), if_pos hd]
  congr 1
  simp only [usPerSec] at *
  omega

/-- **Faker truncates fractional seconds** (the reason for 919a3ea): a start of `00:00:00.900000` is
    treated as `00:00:00`, so Faker's own smallest draw lies before the start; `datetime_between`
    clamps it (`datetime_between_start_bound`). -/
theorem faker_between_fractional_start_undershoots :
    ∃ (S E : Int) (d : Nat) (v : Int), S < E ∧ fakerBetween S E d = .value v ∧ v < S :=
  ⟨900000, 5000000, 0, 0, by decide, by decide, by decide⟩

/-- Both ends of a whole-second range of at least two seconds are attainable. -/
theorem faker_between_ends (S E : Int) (hS : S % usPerSec = 0) (hE : E % usPerSec = 0)
    (hlt : S + usPerSec < E) :
    fakerBetween S E 0 = .value S ∧ fakerBetween S E (E - S).toNat = .value E := by
  have h1 : ¬ (E / usPerSec - S / usPerSec ≤ 1) := by simp only [usPerSec] at *; omega
  have h2 : ((0 : Nat) : Int) ≤ (E / usPerSec - S / usPerSec) * usPerSec := by simp only [usPerSec] at *; omega
  have h3 : (((E - S).toNat : Nat) : Int) ≤ (E / usPerSec - S / usPerSec) * usPerSec := by
    simp only [usPerSec] at *; omega
  unfold fakerBetween
  simp only
  constructor
  · rw [if_neg h1, if_pos h2]; congr 1; simp only [usPerSec] at *; omega
  · rw [if_neg h1, if_pos h3]; congr 1; simp only [usPerSec] at *; omega

/-- The clamp passes values through `max · S` and leaves the other outcomes alone. -/
theorem clampLow_value (S : Int) (o : DTOut) (v : Int) (h : clampLow S o = .value v) :
    ∃ v0, o = .value v0 ∧ v = max v0 S := by
  cases o with
  | value v0 => simp only [clampLow] at h; injection h with h; exact ⟨v0, rfl, h.symm⟩
  | orderError => simp [clampLow] at h
  | badDraw => simp [clampLow] at h

theorem clampHigh_value (E : Int) (o : DTOut) (v : Int) (h : clampHigh E o = .value v) :
    ∃ v0, o = .value v0 ∧ v = min v0 E := by
  cases o with
  | value v0 => simp only [clampHigh] at h; injection h with h; exact ⟨v0, rfl, h.symm⟩
  | orderError => simp [clampHigh] at h
  | badDraw => simp [clampHigh] at h

/-- **The one-sided clamp of 919a3ea (before a6412d5).** For *any* two instants `S < E`, fractional seconds included:
    the value is never before `S`, less than a second after `E`, and not after `E` at all unless
    both bounds lie in the same whole second. -/
theorem clamped_between_bounds (S E : Int) (d : Nat) (v : Int) (hlt : S < E)
    (h : clampLow S (fakerBetween S E d) = .value v) :
    S ≤ v ∧ v < E + usPerSec ∧ (S / usPerSec < E / usPerSec → v ≤ E) := by
  obtain ⟨v0, h0, hv⟩ := clampLow_value S _ v h
  obtain ⟨hv0, hc⟩ := faker_between_value S E d v0 h0
  have hmono : S / usPerSec ≤ E / usPerSec := Int.ediv_le_ediv (by decide) (by omega)
  simp only [usPerSec] at *
  omega

/-- **Instant preservation (full strength; refuted before f914bf1 — D08).** `datetime(spec)`
    denotes the instant the user wrote, for every specification: written offsets of any size,
    naive values, dates, `today`, `now`. -/
theorem datetime_normalise_preserves_instant (c : Clock) (s : DTSpec) :
    normalise codeTzCall c s = writtenInstant c s := by
  simp only [normalise, codeTzCall, writtenInstant]
  by_cases h : (parseSpec c s).2 = 0
  · simp [h]
  · simp [h]

/-- **The normalisation is a function of the instant (D39 repaired).** Two specifications of the
    same instant normalise identically, so an equal-instant object served from
    `parse_datetimespec`'s cache cannot change a result. -/
theorem datetime_normalise_instant_invariant (c : Clock) (s s' : DTSpec)
    (h : writtenInstant c s = writtenInstant c s') :
    normalise codeTzCall c s = normalise codeTzCall c s' := by
  rw [datetime_normalise_preserves_instant, datetime_normalise_preserves_instant, h]

/-- The old call kind (`replace`, before f914bf1) loses exactly the written offset … -/
theorem datetime_normalise_replace_error (c : Clock) (s : DTSpec) :
    normalise .replace c s - writtenInstant c s = (parseSpec c s).2 * usPerSec := by
  simp only [normalise, writtenInstant]; omega

/-- … so it neither preserved the instant nor was a function of it (D08, D39 as statements about
    the explicitly parameterised old behaviour). -/
theorem datetime_normalise_replace_loses_instant :
    (∃ (c : Clock) (s : DTSpec), normalise .replace c s ≠ writtenInstant c s) ∧
    (∃ (c : Clock) (s s' : DTSpec), writtenInstant c s = writtenInstant c s' ∧
      normalise .replace c s ≠ normalise .replace c s') :=
  ⟨⟨⟨0, 0⟩, .stamp 0 (some (-18000)), by decide⟩,
   ⟨⟨0, 0⟩, .stamp 0 (some (-43200)), .stamp 43200000000 (some 0), by decide, by decide⟩⟩

/-- The unconditional `astimezone` would preserve the instant as well (same function). -/
theorem datetime_normalise_astimezone (c : Clock) (s : DTSpec) :
    normalise .astimezone c s = normalise codeTzCall c s := by
  rw [datetime_normalise_preserves_instant]; rfl

/-- **Equal bounds (full strength; refuted before e0d1353 — D37).** When both bounds denote the
    same instant — whatever offsets or fractional seconds were written — every draw returns
    exactly that instant. -/
theorem datetime_between_equal_bounds (c : Clock) (s e : DTSpec) (d : Nat)
    (h : writtenInstant c s = writtenInstant c e) :
    datetimeBetween c s e d = .value (writtenInstant c s) := by
  unfold datetimeBetween datetimeBetweenWith
  simp only [datetime_normalise_preserves_instant, h]
  simp

/-- Faker's draw never produces the order error, and neither does the clamp. -/
theorem faker_between_ne_orderError (S E : Int) (d : Nat) : fakerBetween S E d ≠ .orderError := by
  unfold fakerBetween
  simp only
  by_cases h1 : E / usPerSec - S / usPerSec ≤ 1
  · rw [if_pos h1]
    by_cases h2 : (d : Int) < usPerSec
    · rw [if_pos h2]; simp
    · rw [if_neg h2]; simp
  · rw [if_neg h1]
    by_cases h2 : (d : Int) ≤ (E / usPerSec - S / usPerSec) * usPerSec
    · rw [if_pos h2]; simp
    · rw [if_neg h2]; simp

theorem clamped_ne_orderError (S E : Int) (d : Nat) :
    clampHigh E (clampLow S (fakerBetween S E d)) ≠ .orderError := by
  have h := faker_between_ne_orderError S E d
  cases hf : fakerBetween S E d with
  | value v => simp [clampLow, clampHigh]
  | orderError => exact absurd hf h
  | badDraw => simp [clampLow, clampHigh]

/-- **Order check as written (full strength; refuted before f914bf1 — D08).** An error is raised
    exactly when the written end is before the written start, for every pair of specifications
    and every draw. -/
theorem datetime_between_order_check (c : Clock) (s e : DTSpec) (d : Nat) :
    datetimeBetween c s e d = .orderError ↔ writtenInstant c e < writtenInstant c s := by
  unfold datetimeBetween datetimeBetweenWith
  simp only [datetime_normalise_preserves_instant]
  by_cases hlt : writtenInstant c e < writtenInstant c s
  · rw [if_pos hlt]; simp [hlt]
  · rw [if_neg hlt]
    by_cases heq : writtenInstant c e = writtenInstant c s
    · rw [if_pos heq]; simp [hlt]
    · rw [if_neg heq]
      constructor
      · intro h; exact absurd h (clamped_ne_orderError _ _ d)
      · intro h; exact absurd h hlt

/-- Case split of `datetime_between` on the written instants. -/
theorem datetime_between_cases (c : Clock) (s e : DTSpec) (d : Nat) :
    (writtenInstant c e < writtenInstant c s ∧ datetimeBetween c s e d = .orderError) ∨
    (writtenInstant c e = writtenInstant c s ∧
      datetimeBetween c s e d = .value (writtenInstant c s)) ∨
    (writtenInstant c s < writtenInstant c e ∧
      datetimeBetween c s e d =
        clampHigh (writtenInstant c e) (clampLow (writtenInstant c s)
          (fakerBetween (writtenInstant c s) (writtenInstant c e) d))) := by
  unfold datetimeBetween datetimeBetweenWith
  simp only [datetime_normalise_preserves_instant]
  by_cases hlt : writtenInstant c e < writtenInstant c s
  · left; exact ⟨hlt, by rw [if_pos hlt]⟩
  · right
    by_cases heq : writtenInstant c e = writtenInstant c s
    · left; exact ⟨heq, by rw [if_neg hlt, if_pos heq]⟩
    · right; exact ⟨by omega, by rw [if_neg hlt, if_neg heq]⟩

/-- The two-sided clamp keeps any outcome of the draw between the bounds. -/
theorem two_sided_clamp_bounds (S E : Int) (o : DTOut) (v : Int) (hlt : S < E)
    (h : clampHigh E (clampLow S o) = .value v) : S ≤ v ∧ v ≤ E := by
  obtain ⟨v1, h1, hv⟩ := clampHigh_value E _ v h
  obtain ⟨v0, _, hv1⟩ := clampLow_value S _ v1 h1
  omega

/-- **Bounds as written — full strength** (D08, D37, D38, D50 repaired).  For *every* pair of
    specifications (any written offsets, any fractional seconds, dates, `today`, `now`) and *every*
    draw — admissible or not, whatever Faker does with it:
    an error iff the written end is before the written start; equal instants give exactly that
    instant; otherwise every returned value `v` satisfies `start ≤ v ≤ end` as written instants. -/
theorem datetime_between_written_bounds (c : Clock) (s e : DTSpec) (d : Nat) :
    (writtenInstant c e < writtenInstant c s ∧ datetimeBetween c s e d = .orderError) ∨
    (writtenInstant c e = writtenInstant c s ∧
      datetimeBetween c s e d = .value (writtenInstant c s)) ∨
    (writtenInstant c s < writtenInstant c e ∧
      ∀ v, datetimeBetween c s e d = .value v → writtenInstant c s ≤ v ∧ v ≤ writtenInstant c e) := by
  rcases datetime_between_cases c s e d with ⟨h1, h'⟩ | ⟨h1, h'⟩ | ⟨hlt, h'⟩
  · left; exact ⟨h1, h'⟩
  · right; left; exact ⟨h1, h'⟩
  · right; right
    refine ⟨hlt, fun v hv => ?_⟩
    rw [h'] at hv
    exact two_sided_clamp_bounds _ _ _ v hlt hv

/-- Corollary in the property's own words: any returned value lies between the written bounds. -/
theorem datetime_between_value_bounds (c : Clock) (s e : DTSpec) (d : Nat) (v : Int)
    (h : datetimeBetween c s e d = .value v) :
    writtenInstant c s ≤ v ∧ v ≤ writtenInstant c e := by
  rcases datetime_between_written_bounds c s e d with ⟨_, h'⟩ | ⟨h1, h'⟩ | ⟨_, h'⟩
  · rw [h'] at h; cases h
  · rw [h'] at h; injection h with h; omega
  · exact h' v h

/-- No spurious failure: with `start < end` every admissible draw yields a value. -/
theorem datetime_between_total (c : Clock) (s e : DTSpec) (d : Nat)
    (hlt : writtenInstant c s < writtenInstant c e)
    (hd : (d : Int) < usPerSec ∨
      (1 < writtenInstant c e / usPerSec - writtenInstant c s / usPerSec ∧
       (d : Int) ≤ (writtenInstant c e / usPerSec - writtenInstant c s / usPerSec) * usPerSec)) :
    ∃ v, datetimeBetween c s e d = .value v := by
  rcases datetime_between_cases c s e d with ⟨h1, _⟩ | ⟨h1, _⟩ | ⟨_, h'⟩
  · omega
  · omega
  · rw [h']
    unfold fakerBetween
    simp only
    by_cases h1 : writtenInstant c e / usPerSec - writtenInstant c s / usPerSec ≤ 1
    · rcases hd with hd | ⟨hd, _⟩
      · rw [if_pos h1, if_pos hd]; exact ⟨_, rfl⟩
      · omega
    · rw [if_neg h1]
      rcases hd with hd | ⟨_, hd⟩
      · have : (d : Int) ≤ (writtenInstant c e / usPerSec - writtenInstant c s / usPerSec) * usPerSec := by
          simp only [usPerSec] at *; omega
        rw [if_pos this]; exact ⟨_, rfl⟩
      · rw [if_pos hd]; exact ⟨_, rfl⟩

/-- **The old one-sided clamp overshoots** (the reason for a6412d5; a statement about the explicitly
    written old expression `clampLow S (fakerBetween S E d)`): start `…00.200000`, end `…00.500000`,
    draw `0.875 s` gives a value after the end. -/
theorem one_sided_clamp_overshoots :
    ∃ (S E : Int) (d : Nat) (v : Int), S < E ∧ clampLow S (fakerBetween S E d) = .value v ∧ E < v :=
  ⟨200000, 500000, 875000, 875000, by decide, by decide, by decide⟩

/-- Both written ends are attained when they are whole seconds at least two seconds apart. -/
theorem datetime_between_ends (c : Clock) (s e : DTSpec)
    (hS : writtenInstant c s % usPerSec = 0) (hE : writtenInstant c e % usPerSec = 0)
    (hlt : writtenInstant c s + usPerSec < writtenInstant c e) :
    datetimeBetween c s e 0 = .value (writtenInstant c s) ∧
    datetimeBetween c s e (writtenInstant c e - writtenInstant c s).toNat
      = .value (writtenInstant c e) := by
  have hu : (0 : Int) < usPerSec := by decide
  obtain ⟨e1, e2⟩ := faker_between_ends _ _ hS hE hlt
  rcases datetime_between_cases c s e 0 with ⟨h1, _⟩ | ⟨h1, _⟩ | ⟨_, h0⟩
  · omega
  · omega
  · rcases datetime_between_cases c s e (writtenInstant c e - writtenInstant c s).toNat with
      ⟨h1, _⟩ | ⟨h1, _⟩ | ⟨_, h1⟩
    · omega
    · omega
    · rw [h0, h1, e1, e2]
      simp only [clampLow, clampHigh]
      constructor
      · congr 1; omega
      · congr 1; omega

/-- The D08 input (start `2024-01-01T00:00:00-05:00`, end `2024-01-01T03:00:00+00:00`): the end is two
    hours before the start as instants — an error for every draw. -/
example (d : Nat) : datetimeBetween ⟨19723, 0⟩ (.stamp 1704067200000000 (some (-18000)))
    (.stamp 1704078000000000 (some 0)) d = .orderError :=
  (datetime_between_order_check _ _ _ d).2 (by decide)
/-- The D37 input (the documented `empty` example). -/
example (d : Nat) : datetimeBetween ⟨0, 0⟩ (.stamp 946641540000000 none) (.stamp 946641540000000 none) d
    = .value 946641540000000 := datetime_between_equal_bounds _ _ _ d rfl
/-- The D38 input (start `00:00:00.900000`, end `00:00:05`): the smallest draw gives the start. -/
example : datetimeBetween ⟨0, 0⟩ (.stamp 900000 none) (.stamp 5000000 none) 0 = .value 900000 := by
  decide
/-- The D50 input (start `…00.200000`, end `…00.500000`, draw 0.875 s): the end itself. -/
example : datetimeBetween ⟨0, 0⟩ (.stamp 200000 none) (.stamp 500000 none) 875000 = .value 500000 := by
  decide
example : datetimeBetween ⟨19723, 0⟩ (.date 10956) .today 86400000000 = .value 946684800000000 := by
  decide
example : datetimeBetween ⟨0, 0⟩ (.stamp 5000000 none) (.stamp 3000000 none) 0 = .orderError := by
  decide
example : datetimeBetween ⟨0, 0⟩ (.stamp 0 (some 3600)) (.stamp 7200000000 (some 7200)) 0
    = .value (-3600000000) := by decide

end SnowModel.Props.C11
