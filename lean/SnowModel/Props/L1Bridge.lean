/-
Bridging lemmas for the L1 machine (C01, C02, C06): the pieces of
`data_generator_runtime.py` / `object_rows.py` / `data_generator_runtime_object_model.py` that
`Core/IdMachine.lean` mirrors are regenerated from the AST on every run (`Gen.Runtime`,
`Gen.ObjectRows`, `Gen.ObjectModel`); each lemma states that the source still has exactly the
shape the model was written against.  Any edit of those functions changes the generated file and
breaks the corresponding lemma (a broken tie, handled by the failing-input search).
-/
import SnowModel.Core.IdMachine
import SnowModel.Generated.Runtime
import SnowModel.Generated.ObjectRows
import SnowModel.Generated.ObjectModel

namespace SnowModel.Props.L1Bridge
open SnowModel.IdMachine

/-- `IdMachine.lookup` tries, in this order: last seen per table, local nicknames, persistent
    tables, persistent nicknames, slots — the reverse of the dict-unpacking order of
    `Globals.object_names` (later entries override earlier ones). -/
theorem lookup_order :
    Gen.Runtime.objectNamesOrder.reverse =
      ["self.transients.last_seen_obj_by_table", "self.transients.nicknamed_objects",
       "self.persistent_objects_by_table", "self.persistent_nicknames",
       "self.transients.named_slots"] := rfl

/-- `IdMachine.fresh`: the counter is incremented, then returned. -/
theorem fresh_body :
    Gen.Runtime.idManagerGenerate =
      ["self.last_used_ids[table_name] += 1", "return self.last_used_ids[table_name]"] := rfl

/-- `IdMachine.step … .saveLoad`: `start_ids = last_used + 1`. -/
theorem startId_eq (n : Nat) : Gen.Runtime.startId n = ((n + 1 : Nat) : Int) := by
  simp [Gen.Runtime.startId]

theorem idManager_saved : Gen.Runtime.idManagerSaved = ["'last_used_ids'"] := rfl

/-- `IdMachine.generateId`: nickname slot (bound to the row's table), else table-name slot, else a
    fresh id; the alternatives are chained with `or`. -/
theorem generateId_body :
    Gen.Runtime.generateIdBody =
      ["rc = None",
       "if nickname:\n    rc = self.interpreter.globals.generate_id_for_nickname(nickname, self.current_table_name)",
       "rc = rc or self.interpreter.globals.generate_id_for_nickname(self.current_table_name, self.current_table_name)",
       "rc = rc or self.interpreter.globals.id_manager.generate_id(self.current_table_name)",
       "return rc"] := rfl

/-- `IdMachine.consume`: only an ALLOCATED slot bound to the row's table is consumed. -/
theorem consume_body :
    Gen.Runtime.consumeBody =
      ["slot = self.transients.named_slots.get(nickname)",
       "if slot and slot.status == SlotState.ALLOCATED:\n    if tablename is None or slot._tablename == tablename:\n        return slot.consume_slot()"] := rfl

/-- `NicknameSlot.consume_slot` keeps the id (`SlotSt.consumed i`). -/
theorem consumeSlot_body :
    Gen.ObjectRows.consumeSlotBody = ["self.consumed = True", "return self.allocated_id"] := rfl

/-- `NicknameSlot.id`: allocate from the slot's own table when UNUSED, else return the held id
    (`IdMachine.lookup`, slot branch). -/
theorem slotId_body :
    Gen.ObjectRows.slotIdBody =
      ["if self.allocated_id is None:\n    self.allocated_id = self.id_manager.generate_id(self._tablename)",
       "return self.allocated_id"] := rfl

theorem slotStatus_body :
    Gen.ObjectRows.slotStatusBody =
      ["if self.allocated_id is None:\n    return SlotState.UNUSED\nelif self.consumed:\n    return SlotState.CONSUMED\nelse:\n    return SlotState.ALLOCATED"] := rfl

/-- `IdMachine.register` -/
theorem register_body :
    Gen.Runtime.registerBody =
      ["if nickname:\n    if persistent_object:\n        self.persistent_nicknames[nickname] = obj\n    else:\n        self.transients.nicknamed_objects[nickname] = obj",
       "if persistent_object:\n    self.persistent_objects_by_table[obj._tablename] = obj",
       "self.transients.last_seen_obj_by_table[obj._tablename] = obj"] := rfl

/-- `IdMachine.notFilled` -/
theorem notFilled_comp :
    Gen.Runtime.notFilledComp =
      ["[name for name, slot in self.transients.named_slots.items() if slot.status == SlotState.ALLOCATED]"] := rfl

/-- `IdMachine.resetSlots`: fresh transients (slots, local nicknames, last-seen) -/
theorem resetSlots_body :
    Gen.Runtime.resetSlotsBody = ["self.transients = Transients(self.nicknames_and_tables, self.id_manager)"]
    ∧ Gen.Runtime.transientsInit =
      ["self.nicknamed_objects = {}", "self.last_seen_obj_by_table = {}",
       "self.named_slots = {name: NicknameSlot(table, id_manager) for name, table in nicknames_and_tables.items()}",
       "self.orig_used_ids = id_manager.last_used_ids.copy()"] := ⟨rfl, rfl⟩

/-- The iteration loop: statements, end-of-iteration checks in this order, then the resets
    (`Op.endIteration` = `check_slots_filled` + `reset_slots`). -/
theorem loop_shape :
    Gen.Runtime.loopTest = ["not finished"] ∧
    Gen.Runtime.loopBody =
      ["self.loop_over_templates_once(self.statements, continuing)",
       "finished = self.current_context.check_if_finished()", "self.iteration_count += 1",
       "continuing = True", "self.globals.reset_slots()", "self.row_history.reset_locals()"] ∧
    Gen.Runtime.checkIfFinishedBody =
      ["globls.check_slots_filled()", "app.ensure_progress_was_made(globls.id_manager)",
       "return app.check_if_finished(globls.id_manager)"] := ⟨rfl, rfl, rfl⟩

/-- `Globals.__setstate__` ends with `reset_slots()` (`Op.saveLoad`). -/
theorem setstate_tail : Gen.Runtime.setstateTail = ["self.reset_slots()"] := rfl

/-- Row creation: id, registration (before the fields are evaluated), fields, history, output,
    friends — `Op.create` = the first two. -/
theorem generateRow_body :
    Gen.ObjectModel.generateRowBody =
      ["id = context.generate_id(self.nickname)", "row = {'id': id}",
       "if self.update_key:\n    row['_sf_update_key'] = self.update_key",
       "sobj = ObjectRow(self.tablename, row, index)",
       "context.register_object(sobj, self.nickname, self.just_once)",
       "self._generate_fields(context, row)",
       "context.remember_row(self.tablename, self.nickname, row)",
       "with self.exception_handling('Cannot write row'):\n    if not self.tablename.startswith('__'):\n        output_stream.write_row(self.tablename, context.filter_row_values(row))",
       "context.interpreter.loop_over_templates_once(self.friends, True)", "return sobj"] := rfl

/-- The just_once skip rule: skipped iff `just_once` and (`continuing`: any iteration after the
    first of a run, any iteration of a continued run, or executed as a friend). -/
theorem justOnce_skip_rule :
    Gen.ObjectModel.templateExecuteBody =
      ["should_skip = self.just_once and continuing",
       "if not should_skip:\n    self.generate_rows(interp.output_stream, interp.current_context)"] := rfl

end SnowModel.Props.L1Bridge
