/-
C16 — the generated CCI mapping is complete and loads parents before children.
Property theorems only (helper lemmas live in `SnowModel/Proofs/C16.lean`, `C16b.lean`).
All statements quantify over every table list, dependency list and declaration list.

Overview
  sorter        sort_terminates, sort_mem, sort_perm, sort_perm_no_declarations,
                sort_nodup_refuted (duplicates with declarations), sort_topological
  load steps    steps_cover, steps_ordered, steps_never_fail
  one mapping   fields_lookups_partition (full strength), fields_listed_once,
                step_names_injective_refuted
  whole file    mapping_entries, entries_sfObject, after_sound, after_sound_single,
                after_sound_property (the property's ordering clause, verbatim)
  totality      premapping_total, mapping_errors, mapping_total (full; D14 repaired by 7f47b5f)
  frame         mapping_function_of_parse_and_dependencies, mapping_independent_of_output_configuration,
                mapping_frame_idempotent, mapping_frame_necessary
  continuation  mapping_continuation_invariant (repaired access kind), mapping_continuation_invariant_partial,
                old behaviour: continuation_drops_saved, mapping_continuation_invariant_refuted_for_getattr
-/
import SnowModel.Core.Mapping
import SnowModel.Proofs.C16
import SnowModel.Proofs.C16b
import Mathlib.Data.List.Dedup

namespace SnowModel.Props.C16
open SnowModel.Mapping SnowModel.Proofs.C16

/-! ### the table sorter -/

/-- **Termination by measure.** With the fuel the model gives itself (`2·n+1`, justified by the
    measure `#remaining + #remaining-not-yet-output` which strictly decreases in every iteration),
    `sort_dependencies` always returns — for every dependency graph (cyclic or not), every set of
    `load_after` declarations and either truth value of `inferred_dependencies`. -/
theorem sort_terminates (tr : Bool) (inferred declared : List Dep) (tables : List String) :
    (sortDependencies tr inferred declared tables).isSome = true := by
  unfold sortDependencies
  obtain ⟨r, hr, _, _⟩ := sortLoop_spec (effDeps inferred declared) _
    (goodBreak_sortDependencies (tr && !declared.isEmpty) declared)
    (sortFuel tables.length) tables [] (mu_nil_lt_sortFuel tables)
  rw [hr]; rfl

/-- **The result consists of exactly the given tables** (nothing lost, nothing invented). -/
theorem sort_mem (tr : Bool) (inferred declared : List Dep) (tables r : List String)
    (h : sortDependencies tr inferred declared tables = some r) : ∀ x, x ∈ r ↔ x ∈ tables := by
  unfold sortDependencies at h
  obtain ⟨r', hr, hmem, _⟩ := sortLoop_spec (effDeps inferred declared) _
    (goodBreak_sortDependencies (tr && !declared.isEmpty) declared)
    (sortFuel tables.length) tables [] (mu_nil_lt_sortFuel tables)
  rw [hr] at h
  injection h with h
  subst h
  intro x
  simpa using hmem x

/-- **Permutation (up to repeats).** The distinct entries of the result are a permutation of the
    tables. (Consumers use `table_order.index`, i.e. first occurrences.) -/
theorem sort_perm (tr : Bool) (inferred declared : List Dep) (tables r : List String)
    (hnd : tables.Nodup) (h : sortDependencies tr inferred declared tables = some r) :
    r.dedup.Perm tables := by
  apply (List.perm_ext_iff_of_nodup (List.nodup_dedup r) hnd).mpr
  intro x
  rw [List.mem_dedup]
  exact sort_mem tr inferred declared tables r h x

example : sortDependencies true [⟨"B", "A", "f"⟩] [] ["B", "A"] = some ["A", "B"] := by decide

/-- **Permutation.** Whenever the alphabetical cycle breaker is the one in use (no `load_after`
    declaration, or no recorded dependency at all) the result has no repeats: it *is* a permutation. -/
theorem sort_perm_no_declarations (tr : Bool) (inferred declared : List Dep) (tables r : List String)
    (hnd : tables.Nodup) (hbc : (tr && !declared.isEmpty) = false)
    (h : sortDependencies tr inferred declared tables = some r) : r.Perm tables := by
  have hmem := sort_mem tr inferred declared tables r h
  unfold sortDependencies at h
  rw [hbc] at h
  simp only [Bool.false_eq_true, if_false] at h
  have hn : r.Nodup :=
    sortLoop_nodup (effDeps inferred declared) _ tables [] r
      ⟨List.nodup_nil, hnd, fun t _ ht => absurd ht List.not_mem_nil⟩ h
  exact (List.perm_ext_iff_of_nodup hn hnd).mpr hmem

-- non-vacuity: a cycle, broken alphabetically
example : sortDependencies true [⟨"A", "B", "f"⟩, ⟨"B", "A", "g"⟩] [] ["B", "A", "C"]
    = some ["C", "A", "B"] := by decide

/-
The full statement `sort_nodup : (sortDependencies tr inferred declared tables = some r) → r.Nodup`
is FALSE of the code: after the declared-only sub-sort the loop variable is not updated and every
table that is free by then is appended again.
-/
theorem sort_nodup_refuted :
    sortDependencies true [⟨"A", "B", "f"⟩, ⟨"B", "A", "g"⟩] [⟨"C", "A", "(none)"⟩] ["A", "B", "C"]
      = some ["A", "B", "C", "A", "B", "C"] := by decide

/-- **Parents first on acyclic graphs.** If the effective dependencies (declared ones replace the
    inferred ones of the same table) between the tables admit a rank function — every dependency is
    a self reference or points to a table of the list with smaller rank — then no cycle breaking
    happens, the result is a permutation, and every dependency target precedes its source. -/
theorem sort_topological (tr : Bool) (inferred declared : List Dep) (tables r : List String)
    (rank : String → Nat) (hnd : tables.Nodup)
    (hrank : ∀ t ∈ tables, ∀ d ∈ effDeps inferred declared t,
      d.to = t ∨ (d.to ∈ tables ∧ rank d.to < rank t))
    (h : sortDependencies tr inferred declared tables = some r) :
    r.Perm tables ∧
      ∀ t ∈ tables, ∀ d ∈ effDeps inferred declared t, d.to ≠ t → r.idxOf d.to < r.idxOf t := by
  unfold sortDependencies at h
  obtain ⟨hn, hmem, hord⟩ :=
    sortLoop_topo (effDeps inferred declared) _ tables rank hrank _ tables [] r
      ⟨fun t ht => Or.inr ht, fun t _ ht => absurd ht List.not_mem_nil, fun t ht => ht,
       fun t ht => absurd ht List.not_mem_nil, List.nodup_nil, hnd,
       fun t ht => absurd ht List.not_mem_nil⟩ h
  refine ⟨(List.perm_ext_iff_of_nodup hn hnd).mpr hmem, ?_⟩
  intro t ht d hd hne
  exact hord t ((hmem t).mpr ht) d hd hne

-- non-vacuity: a chain C → B → A with a self reference
example : sortDependencies true [⟨"C", "B", "f"⟩, ⟨"B", "A", "g"⟩, ⟨"A", "A", "p"⟩] [] ["C", "B", "A"]
    = some ["A", "B", "C"] := by decide

/-! ### load steps -/

/-- **One step per (table, update key).** The load steps are pairwise distinct and are exactly the
    triples `(table, update_key, fields)` of the registered templates. -/
theorem steps_cover (tables : List TableInfo) (order : List String) (steps : List LoadStep)
    (h : loadSteps tables order = .ok steps) :
    steps.Nodup ∧
      ∀ s, s ∈ steps ↔ ∃ t ∈ tables, ∃ k ∈ t.templates, s = ⟨t.name, k, t.fields⟩ := by
  obtain ⟨hperm, _, _⟩ := loadSteps_spec tables order steps h
  refine ⟨hperm.nodup_iff.mpr (nodup_dedupFirst _), ?_⟩
  intro s
  rw [hperm.mem_iff]
  exact mem_rawSteps tables s

/-- Steps are ordered by the position of their table in the table order. -/
theorem steps_ordered (tables : List TableInfo) (order : List String) (steps : List LoadStep)
    (h : loadSteps tables order = .ok steps) :
    steps.Pairwise (fun a b => order.idxOf a.table ≤ order.idxOf b.table) :=
  (loadSteps_spec tables order steps h).2.1

/-- The sorter and `table_order.index` never fail: for every summary there are a table order and
    load steps (no `outOfFuel`, no `ValueError`). -/
theorem steps_never_fail (tables : List TableInfo) (deps : List Dep) (decls : List Decl) :
    ∃ order steps, tableOrder tables deps decls = some order ∧
      loadSteps (removePersonContactField tables) order = .ok steps := by
  unfold tableOrder
  have ht := sort_terminates (!deps.isEmpty) (removePersonContactDeps deps) (declaredDeps decls)
    (tables.map (fun t => t.name))
  obtain ⟨order, ho⟩ := Option.isSome_iff_exists.mp ht
  have hmem := sort_mem _ _ _ _ order ho
  have hall : ∀ t ∈ removePersonContactField tables, t.name ∈ order := by
    intro t ht
    apply (hmem t.name).mpr
    rw [← removePersonContactField_names]
    exact List.mem_map.mpr ⟨t, ht, rfl⟩
  obtain ⟨steps, hs⟩ := loadSteps_total _ order hall
  exact ⟨order, steps, ho, hs⟩

example : loadSteps [⟨"A", ["x"], [none, some "k", none]⟩, ⟨"B", [], [none]⟩] ["B", "A"]
    = .ok [⟨"B", none, []⟩, ⟨"A", none, ["x"]⟩, ⟨"A", some "k", ["x"]⟩] := by decide

/-! ### one mapping: fields and lookups -/

/-- **Fields / lookups partition** (full strength; before fix 8e9f95d this needed the hypothesis
    that the record-type column holds no reference — such a column was listed twice). For the mapping
    generated for any load step: the listed columns (plain fields and lookups together) are exactly the
    step's fields, each as often as it occurs there; a field is a lookup iff a reference was recorded
    for it, and then to the recorded target; plain fields hold no reference and are keyed by their own
    name, except the record-type column which is keyed `RecordTypeId`. -/
theorem fields_lookups_partition (deps : List Dep) (all : List LoadStep) (s : LoadStep)
    (p : String × Mapping) (h : mappingOfStep deps all s = .ok p) :
    (p.2.fields.map Prod.snd ++ p.2.lookups.map Lookup.field).Perm s.fields ∧
      (∀ l ∈ p.2.lookups, refTarget deps s.table l.field = some l.table) ∧
      (∀ f ∈ s.fields, f ∈ p.2.lookups.map Lookup.field ↔ isRef deps s.table f = true) ∧
      (∀ kv ∈ p.2.fields, isRef deps s.table kv.2 = false ∧
        (kv.1 = kv.2 ∨
          (kv.1 = "RecordTypeId" ∧ findRecordTypeColumn s.table s.fields = .ok (some kv.2)))) := by
  obtain ⟨rt, hrt', _, _, _, hf, hl⟩ := mappingOfStep_ok deps all s p h
  rw [hf, hl]
  refine ⟨partition_perm deps s.table s.fields rt hrt', ?_, ?_, ?_⟩
  · intro l hlk
    exact (lookupsOf_mem deps s.table s.fields l hlk).2.1
  · intro f hfm
    rw [lookupsOf_fields, List.mem_filter]
    exact ⟨fun h => h.2, fun h => ⟨hfm, h⟩⟩
  · intro kv hkv
    rcases plainFields_mem deps s.table s.fields rt hrt' kv hkv with h1 | h1
    · exact ⟨h1.2.2, Or.inl h1.1⟩
    · exact ⟨h1.2.2, Or.inr ⟨h1.1, by rw [← h1.2.1]; exact hrt'⟩⟩

/-- Each visible field is listed exactly once: corollary of the permutation for steps whose fields
    are distinct (they are dict keys). -/
theorem fields_listed_once (deps : List Dep) (all : List LoadStep) (s : LoadStep)
    (p : String × Mapping) (h : mappingOfStep deps all s = .ok p) (hnd : s.fields.Nodup) :
    (p.2.fields.map Prod.snd ++ p.2.lookups.map Lookup.field).Nodup :=
  (fields_lookups_partition deps all s p h).1.nodup_iff.mpr hnd

example : mappingOfStep [⟨"A", "B", "r"⟩] [] ⟨"A", none, ["x", "r", "RecordType"]⟩ =
    .ok ("Insert A", ⟨"A", "A", [("x", "x"), ("RecordTypeId", "RecordType")], [⟨"r", "B", none⟩], none, []⟩) := by
  decide

-- the formerly refuting input (a record-type column holding references): now a lookup only
example : mappingOfStep [⟨"A", "B", "RecordType"⟩] [] ⟨"A", none, ["RecordType"]⟩ =
    .ok ("Insert A", ⟨"A", "A", [], [⟨"RecordType", "B", none⟩], none, []⟩) := by
  decide

/-
Step names are the keys of the mapping dict. `stepName` is not injective on (table, update key):
-/
theorem step_names_injective_refuted :
    stepName ⟨"A on B", some "C", []⟩ = stepName ⟨"A", some "B on C", []⟩ := by decide

/-! ### the whole mapping -/

/-- **Completeness of the mapping file.** A successfully generated mapping comes from a table order
    and load steps (see `steps_cover`); if the step names are pairwise distinct, its entries are, in
    order, the mappings of the load steps, changed by `add_after_statements` in the `after` of lookups
    only. -/
theorem mapping_entries (tables : List TableInfo) (deps : List Dep) (decls : List Decl)
    (out : List (String × Mapping)) (h : mappingFromRecipe tables deps decls = .ok out) :
    ∃ order steps, tableOrder tables deps decls = some order ∧
      loadSteps (removePersonContactField tables) order = .ok steps ∧
      ((steps.map stepName).Nodup →
        List.Forall₂ (fun s o => ∃ p, mappingOfStep deps steps s = .ok p ∧ SameButAfter p o) steps out) := by
  obtain ⟨order, steps, ms, hpre, hafter⟩ := mappingFromRecipe_ok tables deps decls out h
  obtain ⟨ho, hs, hm⟩ := preMapping_ok tables deps decls order steps ms hpre
  refine ⟨order, steps, ho, hs, ?_⟩
  intro hnd
  obtain ⟨new, hnew, hf⟩ := mappingsOfSteps_spec deps steps steps [] ms (by simpa using hnd) hm
  simp only [List.nil_append] at hnew
  subst hnew
  subst hafter
  exact forall2_comp hf (addAfterFrom_same ms ms 0)

/-- every entry loads the object of its table (`PersonContact` rows go into `Contact`) -/
theorem entries_sfObject (tables : List TableInfo) (deps : List Dep) (decls : List Decl)
    (out : List (String × Mapping)) (h : mappingFromRecipe tables deps decls = .ok out) :
    ∀ p ∈ out, p.2.sfObject = sfObjectOf p.2.table := by
  obtain ⟨order, steps, ms, hpre, hafter⟩ := mappingFromRecipe_ok tables deps decls out h
  obtain ⟨_, _, hm⟩ := preMapping_ok tables deps decls order steps ms hpre
  subst hafter
  intro p hp
  obtain ⟨q, hq, hsame⟩ := forall2_mem_right (addAfterFrom_same ms ms 0) p hp
  rcases mappingsOfSteps_mem deps steps steps [] ms hm q hq with hnil | ⟨s, _, hs⟩
  · exact absurd hnil List.not_mem_nil
  · obtain ⟨_, _, _, hso, htab, _, _⟩ := mappingOfStep_ok deps steps s q hs
    rw [hsame.2.1, hsame.2.2.1, hso, htab]

/-- **After-directive soundness (general form).** In a generated mapping, for the lookup `l` of the
    entry at position `i` (targets named `PersonContact` excepted, as coded): either no entry loads
    the target object at all (e.g. a hidden `__` table) and the lookup carries no `after:`, or the
    target object has a first entry `fi` and a last entry named `ln`, and `fi < i` or the lookup
    carries `after: ln`. Self lookups are included (`fi = i` forces the directive). -/
theorem after_sound (tables : List TableInfo) (deps : List Dep) (decls : List Decl)
    (out : List (String × Mapping)) (h : mappingFromRecipe tables deps decls = .ok out)
    (i : Nat) (p : String × Mapping) (hp : out[i]? = some p) (l : Lookup) (hl : l ∈ p.2.lookups)
    (hpc : l.table ≠ "PersonContact") :
    ((∀ q ∈ out, q.2.sfObject ≠ l.table) ∧ l.after = none) ∨
      ∃ fi ln, firstInstance out l.table = some fi ∧ lastStepName out l.table = some ln ∧
        (fi < i ∨ l.after = some ln) := by
  obtain ⟨order, steps, ms, hpre, hafter⟩ := mappingFromRecipe_ok tables deps decls out h
  obtain ⟨_, _, hm⟩ := preMapping_ok tables deps decls order steps ms hpre
  subst hafter
  have hproj : (addAfterStatements ms).map proj = ms.map proj := addAfterFrom_proj ms ms 0
  have hspec : (addAfterStatements ms)[i]? = _ := addAfterFrom_spec ms ms 0 i
  rw [hspec] at hp
  cases hq : ms[i]? with
  | none => rw [hq] at hp; exact absurd hp (by simp)
  | some q =>
    rw [hq] at hp
    simp only [Option.map_some, Option.some.injEq] at hp
    subst hp
    simp only [List.mem_map] at hl
    obtain ⟨l0, hl0, hl0l⟩ := hl
    -- the lookup had no `after` before the post-process
    have hq_mem : q ∈ ms := List.mem_of_getElem? hq
    have hnone : l0.after = none := by
      rcases mappingsOfSteps_mem deps steps steps [] ms hm q hq_mem with hnil | ⟨s, _, hs⟩
      · exact absurd hnil List.not_mem_nil
      · obtain ⟨_, _, _, _, _, _, hlk⟩ := mappingOfStep_ok deps steps s q hs
        rw [hlk] at hl0
        exact (lookupsOf_mem deps s.table s.fields l0 hl0).2.2
    obtain ⟨_, htab, hmain⟩ := addAfterLookup_spec ms (0 + i) l0
    rw [hl0l] at htab hmain
    rw [htab] at hpc
    rcases hmain hpc with ⟨hnoidx, hsame⟩ | ⟨fi, ln, hfi, hln, hres⟩
    · left
      refine ⟨?_, by rw [hsame]; exact hnone⟩
      rw [htab]
      rcases hnoidx with h1 | h1
      · apply (firstInstance_none _ l0.table).mp
        rw [firstInstance_congr _ ms hproj]; exact h1
      · apply (lastStepName_none _ l0.table).mp
        rw [lastStepName_congr _ ms hproj]; exact h1
    · right
      refine ⟨fi, ln, ?_, ?_, ?_⟩
      · rw [firstInstance_congr _ ms hproj, htab]; exact hfi
      · rw [lastStepName_congr _ ms hproj, htab]; exact hln
      · simpa using hres hnone

/-- **Ordering, by loaded object.** If the target object of a lookup is loaded by a single entry `j`,
    that entry comes strictly earlier or the lookup carries `after:` naming it. -/
theorem after_sound_single (tables : List TableInfo) (deps : List Dep) (decls : List Decl)
    (out : List (String × Mapping)) (h : mappingFromRecipe tables deps decls = .ok out)
    (i : Nat) (p : String × Mapping) (hp : out[i]? = some p) (l : Lookup) (hl : l ∈ p.2.lookups)
    (hpc : l.table ≠ "PersonContact")
    (j : Nat) (pj : String × Mapping) (hj : out[j]? = some pj) (hsf : pj.2.sfObject = l.table)
    (huniq : ∀ j' p', out[j']? = some p' → p'.2.sfObject = l.table → j' = j) :
    j < i ∨ l.after = some pj.1 := by
  rcases after_sound tables deps decls out h i p hp l hl hpc with ⟨hno, _⟩ | ⟨fi, ln, hfi, hln, hres⟩
  · exact absurd hsf (hno pj (List.mem_of_getElem? hj))
  -- the first instance is `j`
  have hfij : fi = j := by
    unfold firstInstance at hfi
    obtain ⟨hlt, hpfi, _⟩ := List.findIdx?_eq_some_iff_getElem.mp hfi
    apply huniq fi out[fi] (by simp [hlt])
    simpa using hpfi
  -- the last step name is `pj`'s
  have hlnj : ln = pj.1 := by
    unfold lastStepName at hln
    obtain ⟨q, hq, hqn⟩ := Option.map_eq_some_iff.mp hln
    have hqmem : q ∈ out := by
      have := List.mem_of_find?_eq_some hq
      simpa using this
    have hqs : q.2.sfObject = l.table := by simpa using List.find?_some hq
    obtain ⟨j', hj'⟩ := List.getElem?_of_mem hqmem
    have := huniq j' q hj' hqs
    subst this
    rw [hj] at hj'
    injection hj' with hj'
    rw [← hqn, hj']
  subst hfij
  rw [← hlnj]
  exact hres

/-- **Ordering, exactly as the property states it**: *for every lookup whose target table is loaded
    by a single step, either that step comes earlier or the lookup carries an `after:` directive naming
    it.* (`hnopc`: the mapping has no `PersonContact` table — those rows are loaded into `Contact`, the
    one case in which "table" and "loaded object" differ; `after_sound_single` covers it.) -/
theorem after_sound_property (tables : List TableInfo) (deps : List Dep) (decls : List Decl)
    (out : List (String × Mapping)) (h : mappingFromRecipe tables deps decls = .ok out)
    (i : Nat) (p : String × Mapping) (hp : out[i]? = some p) (l : Lookup) (hl : l ∈ p.2.lookups)
    (j : Nat) (pj : String × Mapping) (hj : out[j]? = some pj) (hjt : pj.2.table = l.table)
    (huniq : ∀ j' p', out[j']? = some p' → p'.2.table = l.table → j' = j)
    (hnopc : ∀ p' ∈ out, p'.2.table ≠ "PersonContact") :
    j < i ∨ l.after = some pj.1 := by
  have hso : ∀ p' ∈ out, p'.2.sfObject = p'.2.table := by
    intro p' hp'
    rw [entries_sfObject tables deps decls out h p' hp']
    simp [sfObjectOf, hnopc p' hp']
  have hpjm : pj ∈ out := List.mem_of_getElem? hj
  have hpc : l.table ≠ "PersonContact" := by rw [← hjt]; exact hnopc pj hpjm
  apply after_sound_single tables deps decls out h i p hp l hl hpc j pj hj
  · rw [hso pj hpjm]; exact hjt
  · intro j' p' hj' hs'
    apply huniq j' p' hj'
    rw [← hso p' (List.mem_of_getElem? hj')]; exact hs'

-- non-vacuity: a cycle between A and B; B has two steps, A one
example : mappingFromRecipe
    [⟨"A", ["r", "x"], [none]⟩, ⟨"B", ["a"], [none, some "k"]⟩]
    [⟨"A", "B", "r"⟩, ⟨"B", "A", "a"⟩] [] =
    .ok [("Insert A", ⟨"A", "A", [("x", "x")], [⟨"r", "B", some "Upsert B on k"⟩], none, []⟩),
         ("Insert B", ⟨"B", "B", [], [⟨"a", "A", none⟩], none, ["_sf_update_key = NULL"]⟩),
         ("Upsert B on k", ⟨"B", "B", [], [⟨"a", "A", none⟩], some "k", ["_sf_update_key = 'k'"]⟩)] := by
  decide

/-! ### totality -/

/-- Everything before `add_after_statements` can only fail with the recipe error of
    `find_record_type_column` (never out of fuel, never `ValueError`). -/
theorem premapping_total (tables : List TableInfo) (deps : List Dep) (decls : List Decl) (e : Err)
    (h : preMapping tables deps decls = .error e) : ∃ t, e = .multipleRecordTypes t := by
  obtain ⟨order, steps, ho, hs⟩ := steps_never_fail tables deps decls
  unfold preMapping at h
  simp only [ho, hs] at h
  cases hm : mappingsOfSteps deps steps steps [] with
  | error e' =>
    rw [hm] at h
    simp only [Except.error.injEq] at h
    subst h
    obtain ⟨s, _, he⟩ := mappingsOfSteps_error deps steps steps [] e' hm
    exact ⟨s.table, he⟩
  | ok ms => rw [hm] at h; simp at h

/-- **What can go wrong, exactly** (since fix 7f47b5f): only the documented recipe error for two
    record-type columns. In particular a lookup into a table without load step never makes the
    generation fail (before the fix: `KeyError`, D14). -/
theorem mapping_errors (tables : List TableInfo) (deps : List Dep) (decls : List Decl) (e : Err)
    (h : mappingFromRecipe tables deps decls = .error e) : ∃ t, e = .multipleRecordTypes t := by
  unfold mappingFromRecipe at h
  cases hp : preMapping tables deps decls with
  | error e' =>
    rw [hp] at h
    simp only [Except.error.injEq] at h
    subst h
    exact premapping_total tables deps decls e' hp
  | ok v =>
    obtain ⟨order, steps, ms⟩ := v
    rw [hp] at h
    simp at h

/-- **Totality (full statement).** For every summary whose tables have at most one record-type
    column each — whatever the dependencies are, including references into tables that have no load
    step (hidden `__` tables), cyclic graphs, arbitrary declarations — the mapping is generated. -/
theorem mapping_total (tables : List TableInfo) (deps : List Dep) (decls : List Decl)
    (hrt : ∀ t ∈ tables, (t.fields.filter isRecordTypeName).length ≤ 1) :
    ∃ out, mappingFromRecipe tables deps decls = .ok out := by
  obtain ⟨order, steps, ho, hs⟩ := steps_never_fail tables deps decls
  have hsteps : ∀ s ∈ steps, (s.fields.filter isRecordTypeName).length ≤ 1 := by
    intro s hs'
    obtain ⟨t, ht, k, _, e⟩ := ((steps_cover _ order steps hs).2 s).mp hs'
    subst e
    obtain ⟨t0, ht0, _, hsub⟩ := removePersonContactField_fields tables t ht
    exact Nat.le_trans (hsub.filter _).length_le (hrt t0 ht0)
  obtain ⟨ms, hm⟩ := mappingsOfSteps_total deps steps steps [] hsteps
  refine ⟨addAfterStatements ms, ?_⟩
  unfold mappingFromRecipe preMapping
  simp only [ho, hs, hm]

-- the input that used to refute totality (D14: a visible field referencing a hidden table):
-- the lookup is kept, gets no `after:`, and generation succeeds
example : mappingFromRecipe [⟨"A", ["r"], [none]⟩] [⟨"A", "__H", "r"⟩] [] =
    .ok [("Insert A", ⟨"A", "A", [], [⟨"r", "__H", none⟩], none, []⟩)] := by decide

/-! ### the mapping depends on the parse result and the dependency set only -/

/-- **Frame theorem.** If the run writes nothing into the parse-time table infos (the pinned fact
    `C16Bridge.unmodelled_field_writes_none`), the mapping of the run is the mapping of (parse result,
    recorded dependencies, declarations): it is a function of these alone. -/
theorem mapping_function_of_parse_and_dependencies (tables : List TableInfo) (deps : List Dep)
    (decls : List Decl) : mappingOfRun [] tables deps decls = mappingFromRecipe tables deps decls := rfl

/-- **Independence of how the run was driven.** Two runs of one recipe (same parse result, same
    recorded dependencies) whose output configurations write nothing into the table infos produce the
    same mapping — whatever the output streams were. -/
theorem mapping_independent_of_output_configuration (ws₁ ws₂ : List FieldWrite)
    (h₁ : ws₁ = []) (h₂ : ws₂ = []) (tables : List TableInfo) (deps : List Dep) (decls : List Decl) :
    mappingOfRun ws₁ tables deps decls = mappingOfRun ws₂ tables deps decls := by
  subst h₁; subst h₂; rfl

/-- Writes that only repeat existing fields (or name tables that do not exist) are harmless. -/
theorem mapping_frame_idempotent (ws : List FieldWrite) (tables : List TableInfo) (deps : List Dep)
    (decls : List Decl)
    (h : ∀ w ∈ ws, ∀ t ∈ tables, t.name = w.table → w.column ∈ t.fields) :
    mappingOfRun ws tables deps decls = mappingFromRecipe tables deps decls := by
  have hw : ∀ w ∈ ws, applyWrite w tables = tables := by
    intro w hw
    unfold applyWrite
    conv => rhs; rw [← List.map_id tables]
    apply List.map_congr_left
    intro t ht
    by_cases hn : t.name = w.table
    · have := h w hw t ht hn
      simp [hn, this]
    · simp [hn]
  have : applyWrites ws tables = tables := by
    unfold applyWrites
    induction ws with
    | nil => rfl
    | cons w ws ih =>
      simp only [List.foldl_cons]
      rw [hw w (by simp)]
      exact ih (fun w' hw' => h w' (by simp [hw'])) (fun w' hw' => hw w' (by simp [hw']))
  unfold mappingOfRun
  rw [this]

/-- **The frame condition is necessary**: one in-place `setdefault("id")` on a table (what building a
    CSV header inside `table.fields` does) makes the load step list the non-recipe column `id`. -/
theorem mapping_frame_necessary :
    mappingOfRun [⟨"A", "id"⟩] [⟨"A", ["g"], [none]⟩] [] [] ≠
      mappingOfRun [] [⟨"A", ["g"], [none]⟩] [] [] ∧
    mappingOfRun [⟨"A", "id"⟩] [⟨"A", ["g"], [none]⟩] [] [] =
      .ok [("Insert A", ⟨"A", "A", [("g", "g"), ("id", "id")], [], none, []⟩)] := by
  constructor
  · intro h
    have h1 : mappingOfRun [⟨"A", "id"⟩] [⟨"A", ["g"], [none]⟩] [] [] =
        .ok [("Insert A", ⟨"A", "A", [("g", "g"), ("id", "id")], [], none, []⟩)] := by decide
    have h2 : mappingOfRun [] [⟨"A", ["g"], [none]⟩] [] [] =
        .ok [("Insert A", ⟨"A", "A", [("g", "g")], [], none, []⟩)] := by decide
    rw [h1, h2] at h
    simp at h
  · decide

/-! ### continuation -/

/-- **The old behaviour (D05, repaired by fix d660dab), kept as an explicitly parameterised fact.**
    Read with `getattr(state, …, [])`, the saved dependencies are dropped: the continued run knows
    only what it observes itself. The source now reads by key (`Access.get`, pinned in
    `C16Bridge.deps_load_access_is_get`). -/
theorem continuation_drops_saved (saved observed : List Dep) :
    continuedDeps .getattr saved observed = dedupFirst observed := by
  simp [continuedDeps, loadDeps]

/-
What the old access kind did to the property (statement about `Access.getattr` only — no longer
about the code): `Q.p` (a just_once row, not emitted again) was a lookup in the first run and a plain
field afterwards.
-/
theorem mapping_continuation_invariant_refuted_for_getattr :
    let tables : List TableInfo := [⟨"P", [], [none]⟩, ⟨"Q", ["p"], [none]⟩, ⟨"C", ["q"], [none]⟩]
    let saved : List Dep := [⟨"Q", "P", "p"⟩, ⟨"C", "Q", "q"⟩]
    let observed : List Dep := [⟨"C", "Q", "q"⟩]
    (∀ d ∈ observed, d ∈ saved) ∧
      ((mappingFromRecipe tables saved []).toOption.map
          (fun ms => ms.map (fun p => (p.1, p.2.fields, p.2.lookups.map Lookup.field)))) ≠
        ((mappingFromRecipe tables (continuedDeps .getattr saved observed) []).toOption.map
          (fun ms => ms.map (fun p => (p.1, p.2.fields, p.2.lookups.map Lookup.field)))) := by
  decide

/-- **Continuation invariance, for either by-key access kind.** If `__setstate__` reads the saved list with
    `state[...]` or `state.get(...)`, and the continued run observes only dependencies that were
    already saved, the dependency list — hence the mapping, for every table list and declaration
    list — is unchanged. -/
theorem mapping_continuation_invariant_partial (a : Access) (ha : a ≠ .getattr)
    (saved observed : List Dep) (hnd : saved.Nodup) (hsub : ∀ d ∈ observed, d ∈ saved)
    (tables : List TableInfo) (decls : List Decl) :
    continuedDeps a saved observed = saved ∧
      mappingFromRecipe tables (continuedDeps a saved observed) decls =
        mappingFromRecipe tables saved decls := by
  have hload : loadDeps a saved = saved := by
    cases a
    · rfl
    · rfl
    · exact absurd rfl ha
  have hc : continuedDeps a saved observed = saved := by
    unfold continuedDeps
    rw [hload, dedupFirst_append_of_nodup saved observed hnd]
    have : (dedupFirst observed).filter (fun x => decide (x ∉ saved)) = [] := by
      apply List.filter_eq_nil_iff.mpr
      intro x hx
      have := hsub x ((mem_dedupFirst observed x).mp hx)
      simpa using this
    rw [this, List.append_nil]
  exact ⟨hc, by rw [hc]⟩

/-- **Continuation invariance (full statement, for the repaired code: access by key).** The saved
    dependency list is an ordered set (`hnd`); a continued run of the same recipe that observes only
    dependencies already recorded (`hsub`) has the same dependency list and therefore the same mapping,
    for every table list and every declaration list. `C16Bridge.mapping_continuation_invariant_pinned`
    instantiates it with the access kind extracted from the source. -/
theorem mapping_continuation_invariant (saved observed : List Dep) (hnd : saved.Nodup)
    (hsub : ∀ d ∈ observed, d ∈ saved) (tables : List TableInfo) (decls : List Decl) :
    mappingFromRecipe tables (continuedDeps .get saved observed) decls =
      mappingFromRecipe tables saved decls :=
  (mapping_continuation_invariant_partial .get (by decide) saved observed hnd hsub tables decls).2

-- the formerly refuting history, with the repaired access kind
example :
    mappingFromRecipe [⟨"P", [], [none]⟩, ⟨"Q", ["p"], [none]⟩, ⟨"C", ["q"], [none]⟩]
      (continuedDeps .get [⟨"Q", "P", "p"⟩, ⟨"C", "Q", "q"⟩] [⟨"C", "Q", "q"⟩]) [] =
    mappingFromRecipe [⟨"P", [], [none]⟩, ⟨"Q", ["p"], [none]⟩, ⟨"C", ["q"], [none]⟩]
      [⟨"Q", "P", "p"⟩, ⟨"C", "Q", "q"⟩] [] := by decide

example : continuedDeps .get [⟨"Q", "P", "p"⟩, ⟨"C", "Q", "q"⟩] [⟨"C", "Q", "q"⟩]
    = [⟨"Q", "P", "p"⟩, ⟨"C", "Q", "q"⟩] := by decide

end SnowModel.Props.C16
