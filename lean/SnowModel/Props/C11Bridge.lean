/-
C11 — bridging lemmas: what is regenerated from `snowfakery/template_funcs.py` on every run
(`Gen.BoundedFuncs.*`) coincides with what the hand-written model `SnowModel.Bounded` assumes.
A change of the `randrange` arguments, of the weight parsing, of the `choice` returns, of the
`replace`/`astimezone` call kind, of the order comparison or of the statement skeletons of the
five functions changes the generated file, and one of these lemmas stops type-checking.
-/
import SnowModel.Core.Bounded
import SnowModel.Generated.BoundedFuncs

namespace SnowModel.Props.C11Bridge
open SnowModel.Bounded

/-! #### decorators -/

/-- `random_choice`, `choice` and `if` are `@lazy` only; nothing the model covers carries a caching
    decorator (`memorable`, `lru_cache`): every row re-evaluates its weights, bounds and draws.
    (`_parse_date_str` / `_parse_datetime_str`, the cached string helpers, are pinned by `cached_parsers`.) -/
theorem function_decorators :
    Gen.BoundedFuncs.functionDecorators =
      ["random_number: ", "random_choice: lazy", "choice: lazy", "if_: lazy", "date: ", "datetime: ",
       "date_between: ", "datetime_between: ", "parse_weight_str: ", "weighted_choice: ", "parse_date: ",
       "parse_datetimespec: ", "render_boolean: "] := rfl

/-! #### random_number -/

theorem rn_callee : Gen.BoundedFuncs.rnCallee = "random.randrange" := rfl

theorem rnStart_eq (min max step : Int) :
    Gen.BoundedFuncs.rnStart min max step = rnStart min max step := rfl
theorem rnStop_eq (min max step : Int) :
    Gen.BoundedFuncs.rnStop min max step = rnStop min max step := rfl
theorem rnStep_eq (min max step : Int) :
    Gen.BoundedFuncs.rnStep min max step = rnStep min max step := rfl
theorem rnStepDefault_eq : Gen.BoundedFuncs.rnStepDefault = 1 := rfl

/-- the model of `random_number` is `randrange` applied to the *pinned* argument expressions -/
theorem randomNumber_uses_pins (min max step : Int) (k : Nat) :
    randomNumber min max step k =
      randrange (Gen.BoundedFuncs.rnStart min max step) (Gen.BoundedFuncs.rnStop min max step)
        (Gen.BoundedFuncs.rnStep min max step) k := rfl

/-! #### weights -/

/-- `parse_weight_str`: evaluate, strip `%` from the right of strings, `float` -/
theorem weight_parse_body :
    Gen.BoundedFuncs.weightParseBody =
      ["weight_str = context.evaluate(weight_value)",
       "if isinstance(weight_str, str): ;     weight_str = weight_str.rstrip('%')",
       "return float(weight_str)"] := rfl
theorem weight_strip : Gen.BoundedFuncs.weightStrip = "%" := rfl

/-- `choice` (cfed176): `if probability is not None:` parse and return `(probability, pick)`;
    otherwise `(when, pick)` — the shape `choiceWeight r when = if r ≠ None then parse r else when` -/
theorem choice_body :
    Gen.BoundedFuncs.choiceBody =
      ["if probability is not None: ;     probability = parse_weight_str(self.context, probability) ;     return (probability, pick)",
       "return (when, pick)"] := rfl
theorem choice_guards : Gen.BoundedFuncs.choiceGuards = ["probability is not None"] := rfl
theorem choice_weight_exprs : Gen.BoundedFuncs.choiceWeightExprs = ["probability", "when"] := rfl
theorem choice_pick_exprs : Gen.BoundedFuncs.choicePickExprs = ["pick", "pick"] := rfl

/-- `weighted_choice`: weights are the first tuple components, options the second, one draw of
    `random.choices` -/
theorem weighted_choice_body :
    Gen.BoundedFuncs.weightedChoiceBody =
      ["weights = [weight for weight, value in choices]",
       "options = [value for weight, value in choices]",
       "return random.choices(options, weights, k=1)[0]"] := rfl

/-- `random_choice`: the dispatch conditions, the three selection calls and the lazy evaluation of
    the picked branch; the mapping form builds `(weight, key)` pairs with `parse_weight_str` only -/
theorem random_choice_tests :
    Gen.BoundedFuncs.randomChoiceTests =
      ["not (use_choices or use_kwchoices)", "use_choices and use_kwchoices", "use_choices",
       "getattr(choices[0], 'function_name', None) == 'choice'", "hasattr(rc, 'render')"] := rfl
theorem random_choice_selections :
    Gen.BoundedFuncs.randomChoiceSelections =
      ["weighted_choice(choices)", "weighted_choice(choices)", "random.choice(choices)",
       "self.context.evaluate_raw(rc)"] := rfl
theorem random_choice_comprehensions :
    Gen.BoundedFuncs.randomChoiceComprehensions =
      ["[(parse_weight_str(self.context, value), key) for key, value in kwchoices.items()]",
       "[self.context.evaluate_raw(choice) for choice in choices]"] := rfl

/-! #### datetime normalisation -/

/-- the call kind in `datetime()` is the one the model uses (f914bf1: `astimezone` when the value
    carries a non-zero offset, else `replace`) -/
theorem datetime_tz_call : tzCallOfString Gen.BoundedFuncs.datetimeTzCall = some codeTzCall := by
  decide
theorem datetime_tz_call_args :
    Gen.BoundedFuncs.datetimeTzCallArgs = ["timezone", "|", "tzinfo=timezone"] := rfl
theorem datetime_zone_normalise :
    Gen.BoundedFuncs.datetimeZoneNormalise = "timezone = _normalize_timezone(timezone)" := rfl
/-- naive parsed values get UTC attached (wall clock kept): datetime objects in
    `parse_datetimespec` itself, strings in the helper `_parse_datetime_str` it delegates to -/
theorem parse_spec_tz_calls :
    Gen.BoundedFuncs.parseSpecTzCalls =
      ["replace(tzinfo=timezone.utc)", "_parse_datetime_str: replace(tzinfo=timezone.utc)"] := rfl
theorem parse_spec_delegates :
    Gen.BoundedFuncs.parseSpecDelegates = ["_parse_datetime_str(d)"] := rfl
/-- only the parsing of *strings* is cached (885750c): datetime objects, `now` and `today` are
    evaluated afresh, so an equal-instant object with another offset can no longer be served (D39) -/
theorem cached_parsers :
    Gen.BoundedFuncs.cachedParsers = ["_parse_date_str(d: str)", "_parse_datetime_str(d: str)"] := rfl

/-! #### datetime_between / date_between -/

theorem orderCond_eq (e s : Int) : Gen.BoundedFuncs.orderCond e s = decide (e < s) := rfl

theorem equalCond_eq (e s : Int) : Gen.BoundedFuncs.equalCond e s = decide (e = s) := rfl
theorem equal_return :
    Gen.BoundedFuncs.equalReturn = "start_date.astimezone(timezone) if timezone else start_date" := rfl

/-- the clamp (919a3ea, a6412d5): the Faker result is `max`ed with the start and `min`ed with the end,
    both expressed in the result's zone -/
theorem clamp_value :
    Gen.BoundedFuncs.clampValue =
      "self._faker_for_dates.date_time_between(start_date, end_date, tzinfo=timezone)" := rfl
theorem clamp_earliest :
    Gen.BoundedFuncs.clampEarliest =
      ["start_date.astimezone(timezone)", "(start_date - start_date.utcoffset()).replace(tzinfo=None)"] := rfl
theorem clamp_latest :
    Gen.BoundedFuncs.clampLatest =
      ["end_date.astimezone(timezone)", "(end_date - end_date.utcoffset()).replace(tzinfo=None)"] := rfl
theorem clamp_return : Gen.BoundedFuncs.clampReturn = "min(max(value, earliest), latest)" := rfl

/-- the model's order check and equal-bounds check are the pinned comparisons; the draw is clamped
    to the start from below and to the end from above -/
theorem datetimeBetweenWith_uses_pin (call : TzCall) (c : Clock) (s e : DTSpec) (d : Nat) :
    datetimeBetweenWith call c s e d =
      if Gen.BoundedFuncs.orderCond (normalise call c e) (normalise call c s) = true then .orderError
      else if Gen.BoundedFuncs.equalCond (normalise call c e) (normalise call c s) = true then
        .value (normalise call c s)
      else clampHigh (normalise call c e)
        (clampLow (normalise call c s) (fakerBetween (normalise call c s) (normalise call c e) d)) := by
  simp [datetimeBetweenWith, Gen.BoundedFuncs.orderCond, Gen.BoundedFuncs.equalCond]

theorem datetime_between_body :
    Gen.BoundedFuncs.datetimeBetweenBody =
      ["start_date = self.datetime(start_date)", "end_date = self.datetime(end_date)",
       "timezone = _normalize_timezone(timezone)",
       "if end_date < start_date: ;     raise DataGenError('End date is before start date')",
       "if end_date == start_date: ;     return start_date.astimezone(timezone) if timezone else start_date",
       "value = self._faker_for_dates.date_time_between(start_date, end_date, tzinfo=timezone)",
       "if timezone: ;     earliest = start_date.astimezone(timezone) ;     latest = end_date.astimezone(timezone) ; else: ;     earliest = (start_date - start_date.utcoffset()).replace(tzinfo=None) ;     latest = (end_date - end_date.utcoffset()).replace(tzinfo=None)",
       "return min(max(value, earliest), latest)"] := rfl

theorem date_dispatch_guard :
    Gen.BoundedFuncs.dateDispatchGuard =
      "not isinstance(d, str) or not DateProvider.regex.fullmatch(d)" := rfl

theorem date_between_body :
    Gen.BoundedFuncs.dateBetweenBody =
      ["start_date = try_parse_date(start_date)", "end_date = try_parse_date(end_date)",
       "try: ;     return self._faker_for_dates.date_between(start_date, end_date) ; except ValueError as e: ;     if 'empty range' not in str(e): ;         raise"] := rfl

end SnowModel.Props.C11Bridge
