/-
C18 — fake contact data is safe: reserved e-mail domains, bounded unique usernames, names looked
up without regard to case or underscores.
Property theorems only (helper lemmas live in `SnowModel/Proofs/C18*.lean`).
All statements quantify over every string / draw / table / call history; nothing is bounded.
-/
import SnowModel.Core.FakeContact
import SnowModel.Proofs.C18
import SnowModel.Proofs.C18b

namespace SnowModel.Props.C18
open SnowModel.FakeContact
open SnowModel.Proofs.C18 (isDigitC)

/-! ## the sanitiser (`replace_unicode_strings_with_None`) -/

/-- **sanitise_spec.** A name is dropped (`None`) exactly when it has a non-ASCII character;
    otherwise exactly its ASCII letters and digits are kept, in order: the result has no other
    character (in particular no `@`, space or punctuation), is a subsequence of the input and is a
    fixed point of the sanitiser. -/
theorem sanitise_spec (s : Str) :
    (sanitise s = none ↔ ∃ c ∈ s, isAsciiC c = false) ∧
    (∀ r, sanitise s = some r →
      r = s.filter isAlnumC ∧ AllAlnum r ∧ r.Sublist s ∧ '@' ∉ r ∧ sanitise r = some r) := by
  refine ⟨Proofs.C18.sanitise_none_iff s, ?_⟩
  intro r h
  have ha := Proofs.C18.sanitise_alnum h
  refine ⟨(Proofs.C18.sanitise_some h).1, ha, ?_, Proofs.C18.noAt_of_alnum ha,
    Proofs.C18.sanitise_of_alnum ha⟩
  rw [(Proofs.C18.sanitise_some h).1]
  exact List.filter_sublist

/-- What `isAlnumC` means: the 62 ASCII letters and digits, nothing else. -/
theorem alnum_chars (c : Char) :
    isAlnumC c = true ↔
      c ∈ "0123456789ABCDEFGHIJKLMNOPQRSTUVWXYZabcdefghijklmnopqrstuvwxyz".toList := by
  constructor
  · intro h
    have hc : c = Char.ofNat c.toNat := (Char.ofNat_toNat c).symm
    simp only [isAlnumC, Bool.or_eq_true, Bool.and_eq_true, decide_eq_true_eq] at h
    generalize c.toNat = n at *
    subst hc
    rcases h with (⟨h1, h2⟩ | ⟨h1, h2⟩) | ⟨h1, h2⟩ <;> interval_cases n <;> decide
  · revert c
    decide

/-! ## e-mail -/

/-- The 60 templates of the source (3 first-name patterns × 5 separators × 4 year patterns) are
    well-formed format strings and parse to the structured templates the proofs work with. -/
theorem templates_parse :
    emailTemplates.length = 60 ∧ emailTemplates.map parseFormat = segTemplates.map some :=
  ⟨Proofs.C18.templates_length, Proofs.C18.templates_parse⟩

/-- **email_shape.** For *each* of the 60 templates, *all* sanitised first and last names (any
    length, first name possibly a single character — it is padded), any domain and any year of at
    least four digits: formatting succeeds (no `IndexError`) and yields
    `fnPart ++ sep ++ lastname ++ yearPart ++ "@" ++ domain`, where `fnPart` is the padded first
    name or its first one/two characters, `sep` one of the five separators, `yearPart` the year,
    its last two digits, its last digit or nothing — and the local part contains no `@`. -/
theorem email_shape (f l : Str) (d : EmailDraws) (hfa : AllAlnum f) (hla : AllAlnum l)
    (ht : d.tmpl < 60) (hy : 1000 ≤ d.year) :
    ∃ fnPart sep yrPart,
      emailBuilt f l d = some (fnPart ++ sep ++ l ++ yrPart ++ '@' :: d.domain) ∧
      FnPart (ljust2 f) fnPart ∧ sep ∈ firstNameSeparators ∧ YearPart (pyStrNat d.year) yrPart ∧
      '@' ∉ fnPart ++ sep ++ l ++ yrPart :=
  Proofs.C18.email_shape f l d hfa hla ht hy

/-- Hence the domain of a built address (what follows its last `@`) is exactly the drawn
    `safe_domain_name()`, whatever the names. -/
theorem email_domain (f l : Str) (d : EmailDraws) (hfa : AllAlnum f) (hla : AllAlnum l)
    (ht : d.tmpl < 60) (hy : 1000 ≤ d.year) (hd : '@' ∉ d.domain) :
    ∃ s, emailBuilt f l d = some s ∧ '@' ∈ s ∧ addrDomain s = d.domain := by
  obtain ⟨p, sep, q, h, _, _, _, _⟩ := email_shape f l d hfa hla ht hy
  exact ⟨_, h, by simp, Proofs.C18.addrDomain_append _ _ hd⟩

/-- `str(year)` consists of decimal digits and has at least four of them from 1000 on — the fact
    that makes `{year[2]}{year[3]}` safe. -/
theorem year_string (n : Nat) :
    (∀ c ∈ pyStrNat n, isDigitC c) ∧ (1000 ≤ n → 4 ≤ (pyStrNat n).length) :=
  ⟨Proofs.C18.pyStrNat_digits n, Proofs.C18.pyStrNat_length n⟩

/-- The address is taken from Faker's `ascii_safe_email()` exactly when matching is off or one of
    the two remembered names is missing, non-ASCII (`None`) or has no letter or digit (`""`). -/
theorem email_fallback_iff (fn ln : Option Str) (m : Bool) (d : EmailDraws) :
    email fn ln m d = .fallback d.fallback ↔ ¬ (m = true ∧ truthy fn = true ∧ truthy ln = true) := by
  unfold email
  by_cases h : (m && truthy fn && truthy ln) = true
  · simp only [h, if_true]
    have h' : m = true ∧ truthy fn = true ∧ truthy ln = true := by
      simpa [Bool.and_eq_true, and_assoc] using h
    constructor
    · intro e
      cases hb : emailBuilt (fn.getD []) (ln.getD []) d <;> simp [hb] at e
    · intro hn
      exact absurd h' hn
  · simp only [h]
    constructor
    · intro _ hh
      apply h
      simp [hh.1, hh.2.1, hh.2.2]
    · intro _
      rfl

/-- **email_reserved.** Whatever the two remembered names are (absent, sanitised away, one
    character, …), for every template and every year ≥ 1000: if Faker keeps its contract
    (`safe_domain_name()` is a reserved domain and `ascii_safe_email()` is an address in one), then
    `fake: email` returns an address whose domain is reserved — and never fails. -/
theorem email_reserved (fn ln : Option Str) (hfn : SanitisedOpt fn) (hln : SanitisedOpt ln)
    (m : Bool) (d : EmailDraws) (ht : d.tmpl < 60) (hy : 1000 ≤ d.year)
    (hd : d.domain ∈ reservedDomains) (hfb : ReservedAddr d.fallback) :
    ∃ s, (email fn ln m d = .built s ∨ email fn ln m d = .fallback s) ∧ ReservedAddr s := by
  unfold email
  by_cases h : (m && truthy fn && truthy ln) = true
  · simp only [h, if_true]
    have h' : m = true ∧ truthy fn = true ∧ truthy ln = true := by
      simpa [Bool.and_eq_true, and_assoc] using h
    obtain ⟨f, rfl⟩ : ∃ f, fn = some f := by
      cases fn with
      | none => simp [truthy] at h'
      | some f => exact ⟨f, rfl⟩
    obtain ⟨l, rfl⟩ : ∃ l, ln = some l := by
      cases ln with
      | none => simp [truthy] at h'
      | some l => exact ⟨l, rfl⟩
    obtain ⟨p, sep, q, hb, _, _, _, _⟩ := email_shape f l d (hfn f rfl) (hln l rfl) ht hy
    simp only [Option.getD_some, hb]
    exact ⟨_, Or.inl rfl, Proofs.C18.reservedAddr_append _ _ hd⟩
  · simp only [h]
    exact ⟨_, Or.inr rfl, hfb⟩

/-- The sanitised entries of `_already_have` satisfy the hypothesis of `email_reserved`. -/
theorem alreadyHave_sanitised (loc : Locals) (k : Str) (o : Option Str)
    (h : alreadyHave loc k = some o) : SanitisedOpt o := by
  unfold alreadyHave at h
  intro r hr
  subst hr
  split at h
  · cases h
  · rename_i s _
    simp only [Option.some.injEq] at h
    exact Proofs.C18.sanitise_alnum h
  · cases h

/-- **Whatever was generated earlier.** For *every* content of the remembered-values dictionary
    (any history of earlier calls in the row, any spelling that resolves to Snowfakery's `email`):
    the call returns a string in a reserved domain, or the dictionary holds a non-string under
    `firstname`/`lastname` (outside the model; cannot arise from Faker's name providers). -/
theorem step_email_reserved (t : List (Str × TVal)) (loc : Locals) (c : Call)
    (hres : getFake t c.spelling = .found .email)
    (ht : c.d.tmpl < 60) (hy : 1000 ≤ c.d.year)
    (hd : c.d.domain ∈ reservedDomains) (hfb : ReservedAddr c.d.fallback) :
    (step t loc c).2 = .outsideModel ∨ ∃ s, (step t loc c).2 = .value (.str s) ∧ ReservedAddr s := by
  unfold step
  rw [hres]
  simp only
  cases h1 : alreadyHave loc firstnameKey with
  | none => exact Or.inl rfl
  | some fn =>
    cases h2 : alreadyHave loc lastnameKey with
    | none => exact Or.inl rfl
    | some ln =>
      right
      obtain ⟨s, hs, hr⟩ := email_reserved fn ln (alreadyHave_sanitised _ _ _ h1)
        (alreadyHave_sanitised _ _ _ h2) c.matching c.d.email ht hy hd hfb
      rcases hs with hs | hs <;> exact ⟨s, by simp [hs], hr⟩

/-! ## user name -/

/-- **username_len.** At most 80 characters whenever the host name has at most 79. -/
theorem username_len (fn ln : Option Str) (m : Bool) (d : UserDraws) (h : d.host.length ≤ 79) :
    (userName fn ln m d).length ≤ 80 := by
  rw [Proofs.C18.userName_eq, Proofs.C18.pySlice0_of_le _ _ h]
  simp only [List.length_append, List.length_cons, List.length_take]
  omega

/-- … and exactly 80 as soon as the name part does not fit. -/
theorem username_len_exact (fn ln : Option Str) (m : Bool) (d : UserDraws) (h : d.host.length ≤ 79)
    (hl : 79 - d.host.length ≤ (namepart fn ln m d).length) :
    (userName fn ln m d).length = 80 := by
  rw [Proofs.C18.userName_eq, Proofs.C18.pySlice0_of_le _ _ h]
  simp only [List.length_append, List.length_cons, List.length_take]
  omega

/-- The hypothesis is necessary: with a host name of 80 or more characters the result is longer
    than 80 (the stop of the slice becomes negative; nothing guards against it). -/
theorem username_len_needs_short_host (fn ln : Option Str) (m : Bool) (d : UserDraws)
    (h : 80 ≤ d.host.length) : 80 < (userName fn ln m d).length := by
  rw [Proofs.C18.userName_eq]
  simp only [List.length_append, List.length_cons]
  omega

/-- **username_one_at.** Exactly one `@`, provided Faker's host name, uuid and (when they are
    drawn) first/last name contain none; remembered names never contribute one. -/
theorem username_one_at (fn ln : Option Str) (hfn : SanitisedOpt fn) (hln : SanitisedOpt ln)
    (m : Bool) (d : UserDraws)
    (h1 : '@' ∉ d.first) (h2 : '@' ∉ d.last) (h3 : '@' ∉ d.uuid) (h4 : '@' ∉ d.host) :
    (userName fn ln m d).count '@' = 1 := by
  rw [Proofs.C18.userName_eq]
  have hn := Proofs.C18.namepart_noAt fn ln m d hfn hln h1 h2 h3
  have hs : '@' ∉ pySlice0 (namepart fn ln m d) (namepartMaxLen d.host.length) :=
    fun hm => hn ((Proofs.C18.pySlice0_sublist _ _).subset hm)
  rw [List.count_append, List.count_cons_self, List.count_eq_zero_of_not_mem hs,
    List.count_eq_zero_of_not_mem h4]

/-- The part after the `@` is the host name. -/
theorem username_domain (fn ln : Option Str) (m : Bool) (d : UserDraws) (h4 : '@' ∉ d.host) :
    addrDomain (userName fn ln m d) = d.host := by
  rw [Proofs.C18.userName_eq]
  exact Proofs.C18.addrDomain_append _ _ h4

/-- the uuid survives the truncation -/
def UuidSurvives (fn ln : Option Str) (m : Bool) (d : UserDraws) : Prop :=
  (namepart fn ln m d).length + 1 + d.host.length ≤ 80

/-
Full statement (what "never repeated" needs), FALSE for the code as it is — see
`username_unique_refuted` (D22):

  theorem username_unique (fn₁ ln₁ fn₂ ln₂ m₁ m₂ d₁ d₂) (hosts without '@')
      (hlen : d₁.uuid.length = d₂.uuid.length) (hne : d₁.uuid ≠ d₂.uuid) :
      userName fn₁ ln₁ m₁ d₁ ≠ userName fn₂ ln₂ m₂ d₂
-/

/-- **username_unique_partial.** Two user names built from different uuids (of equal length, as
    uuid4 strings are) differ — whatever the names and hosts — *provided the uuids survive the
    truncation to 80*. -/
theorem username_unique_partial (fn₁ ln₁ fn₂ ln₂ : Option Str) (m₁ m₂ : Bool) (d₁ d₂ : UserDraws)
    (hh₁ : '@' ∉ d₁.host) (hh₂ : '@' ∉ d₂.host)
    (hs₁ : UuidSurvives fn₁ ln₁ m₁ d₁) (hs₂ : UuidSurvives fn₂ ln₂ m₂ d₂)
    (hlen : d₁.uuid.length = d₂.uuid.length) (hne : d₁.uuid ≠ d₂.uuid) :
    userName fn₁ ln₁ m₁ d₁ ≠ userName fn₂ ln₂ m₂ d₂ := by
  intro heq
  unfold UuidSurvives at hs₁ hs₂
  have e₁ : d₁.host.length ≤ 79 := by omega
  have e₂ : d₂.host.length ≤ 79 := by omega
  rw [Proofs.C18.userName_eq, Proofs.C18.userName_eq, Proofs.C18.pySlice0_of_le _ _ e₁,
    Proofs.C18.pySlice0_of_le _ _ e₂, List.take_of_length_le (by omega),
    List.take_of_length_le (by omega)] at heq
  obtain ⟨hnp, _⟩ := Proofs.C18.append_at_inj hh₁ hh₂ heq
  obtain ⟨p₁, hp₁⟩ := Proofs.C18.namepart_suffix fn₁ ln₁ m₁ d₁
  obtain ⟨p₂, hp₂⟩ := Proofs.C18.namepart_suffix fn₂ ln₂ m₂ d₂
  rw [hp₁, hp₂] at hnp
  exact hne (List.append_inj_right' hnp hlen)

/-- … and when only a prefix of the uuid survives, uniqueness rests on that prefix alone: with
    the same names and host, the user names differ iff the surviving prefixes differ. -/
theorem username_unique_prefix (fn ln : Option Str) (m : Bool) (d : UserDraws) (u₁ u₂ : Str)
    (h : d.host.length ≤ 79) :
    let k := 79 - d.host.length
    (userName fn ln m { d with uuid := u₁ } = userName fn ln m { d with uuid := u₂ }) ↔
      (namepart fn ln m { d with uuid := u₁ }).take k = (namepart fn ln m { d with uuid := u₂ }).take k := by
  intro k
  rw [Proofs.C18.userName_eq, Proofs.C18.userName_eq]
  simp only
  rw [Proofs.C18.pySlice0_of_le _ _ h, Proofs.C18.pySlice0_of_le _ _ h]
  constructor
  · intro e
    exact List.append_cancel_right e
  · intro e
    rw [e]

/-- **D22: "never repeated" is refuted.** Two *different* uuids, same row names, an Icelandic
    host name: the truncation to 80 cuts the uuids down to their common prefix and the two user
    names coincide. -/
theorem username_unique_refuted :
    ∃ (fn ln : Option Str) (d₁ d₂ : UserDraws),
      d₁.uuid ≠ d₂.uuid ∧ d₁.uuid.length = 36 ∧ d₂.uuid.length = 36 ∧ '@' ∉ d₁.host ∧
      d₁.host = d₂.host ∧ userName fn ln true d₁ = userName fn ln true d₂ :=
  ⟨some "Trausti".toList, some "Oddsteinnsson".toList,
   { host := "desktop-31.ingibergsdottir-thorbergsdottir.com".toList, first := [], last := [],
     uuid := "886023f2-eb7a-4d6b-9c1e-0123456789ab".toList },
   { host := "desktop-31.ingibergsdottir-thorbergsdottir.com".toList, first := [], last := [],
     uuid := "886023f2-eb7a-4d6b-9c1e-ba9876543210".toList },
   by decide, by decide, by decide, by decide, rfl, by decide⟩

/-! ## name lookup -/

/-- Lookup ignores case. -/
theorem lookup_case_insensitive (t : List (Str × TVal)) (s s' : Str) (h : lower s = lower s') :
    getFake t s = getFake t s' := by
  unfold getFake
  rw [h]

/-- **lookup_sound.** Whatever a spelling resolves to is an attribute whose name has the same
    canonical form (lower case, no underscores) as the spelling — never an unrelated provider. -/
theorem lookup_sound (fk : DirList) (ig : List Str) (sn : DirList) (s : Str) (p : Prov)
    (h : getFake (buildTable fk ig sn) s = .found p) :
    ∃ e ∈ entries fk ig sn, e.2 = .impl p ∧ canon e.1 = canon s := by
  have key : ∀ k, canon k = canon s → implOf (dictGet (buildTable fk ig sn) k) = some p →
      ∃ e ∈ entries fk ig sn, e.2 = .impl p ∧ canon e.1 = canon s := by
    intro k hk hi
    cases hd : dictGet (buildTable fk ig sn) k with
    | none => simp [hd, implOf] at hi
    | some w =>
      cases w with
      | notImpl => simp [hd, implOf] at hi
      | impl q =>
        simp only [hd, implOf, Option.some.injEq] at hi
        subst hi
        obtain ⟨e, he, hk', hv⟩ := Proofs.C18.mem_buildTable (Proofs.C18.dictGet_mem hd)
        exact ⟨e, he, hv.symm, by rw [← Proofs.C18.canon_key hk', hk]⟩
  unfold getFake at h
  split at h
  · rename_i q hq
    cases h
    exact key _ (Proofs.C18.canon_lower s) hq
  · split at h
    · rename_i q hq
      cases h
      exact key _ (Proofs.C18.canon_canon s) hq
    · cases h

/-- **canonical_lookup (full strength, after fix 6b5b124).** If attributes with the same
    canonical name denote the same thing (`Consistent`, a decidable condition on the two `dir()`
    lists), then *every* spelling with the canonical form of an attribute's name — any mixture of
    case, any subset of its underscores, even additional ones — resolves to that attribute (or to
    "no such name" when it is `NotImplemented`). -/
theorem canonical_lookup (fk : DirList) (ig : List Str) (sn : DirList)
    (hc : Consistent (entries fk ig sn)) (e : Str × TVal) (he : e ∈ entries fk ig sn)
    (s : Str) (hs : AnySpelling s e.1) :
    getFake (buildTable fk ig sn) s = resolve e.2 := by
  unfold AnySpelling at hs
  apply Proofs.C18.getFake_eq_resolve
  · intro w hw
    exact Proofs.C18.table_value fk ig sn hc e he _ (by rw [Proofs.C18.canon_lower, hs]) w hw
  · rw [hs]
    exact Proofs.C18.canon_key_present fk ig sn e he
  · intro w hw
    exact Proofs.C18.table_value fk ig sn hc e he _ (by rw [Proofs.C18.canon_canon, hs]) w hw

/-- the all-or-none spellings are a special case -/
theorem spelling_is_anySpelling (s n : Str) (h : Spelling s n) : AnySpelling s n := by
  unfold AnySpelling
  rw [← Proofs.C18.canon_lower s]
  exact Proofs.C18.spelling_canon h

/-- **Snowfakery names win (full strength).** If Snowfakery's own attributes are consistent
    among themselves, every spelling of one of them — any case, any placement of underscores —
    resolves to it, whatever Faker (or a provider plugin) defines under the same canonical name,
    *unless the spelling is literally (up to case) the name of a Faker attribute* — that exact
    spelling then denotes Faker's attribute (`postal_code` in ko_KR next to Snowfakery's
    `postalcode`: see `snow_wins_needs_hypothesis`). -/
theorem snow_wins (fk : DirList) (ig : List Str) (sn : DirList)
    (hc : Consistent (sn.filter (visible []))) (e : Str × TVal) (he : e ∈ sn.filter (visible []))
    (s : Str) (hs : AnySpelling s e.1)
    (hlit : ∀ e' ∈ fk.filter (visible ig), lower e'.1 ≠ lower s) :
    getFake (buildTable fk ig sn) s = resolve e.2 := by
  unfold AnySpelling at hs
  obtain ⟨wc, hwc⟩ := Proofs.C18.snow_canon_key sn e he
  apply Proofs.C18.getFake_eq_resolve
  · intro w hw
    rcases Proofs.C18.table_cases fk ig sn _ w hw with h | ⟨hnone, hF⟩
    · exact Proofs.C18.snow_table_value sn hc e he _ (by rw [Proofs.C18.canon_lower, hs]) w h
    · exfalso
      rcases List.mem_append.1 (Proofs.C18.dictGet_mem hF) with h | h
      · obtain ⟨e', he', hk, _⟩ := Proofs.C18.mem_objToFuncList h
        exact hlit e' he' hk.symm
      · obtain ⟨e', he', hk, _⟩ := Proofs.C18.mem_objToFuncList h
        -- the spelling has no underscore, so it is the canonical key, which the snow segments hold
        have h1 : canon s = lower s := by
          show noUnderscore (lower s) = lower s
          rw [hk]; exact Proofs.C18.noUnderscore_canon _
        rw [← h1, hs, hwc] at hnone
        cases hnone
  · rw [hs]
    exact ⟨wc, Proofs.C18.snow_value fk ig sn _ _ hwc⟩
  · intro w hw
    rcases Proofs.C18.table_cases fk ig sn _ w hw with h | ⟨hnone, _⟩
    · exact Proofs.C18.snow_table_value sn hc e he _ (by rw [Proofs.C18.canon_canon, hs]) w h
    · rw [hs, hwc] at hnone
      cases hnone

/-- All-or-none spellings (the attribute's own name or its canonical form, in any case) need no
    side condition: both are keys of the Snowfakery segments. -/
theorem snow_wins_all_or_none (fk : DirList) (ig : List Str) (sn : DirList)
    (hc : Consistent (sn.filter (visible []))) (e : Str × TVal) (he : e ∈ sn.filter (visible []))
    (s : Str) (hs : Spelling s e.1) :
    getFake (buildTable fk ig sn) s = resolve e.2 := by
  have hany := spelling_is_anySpelling s e.1 hs
  unfold AnySpelling at hany
  obtain ⟨wc, hwc⟩ := Proofs.C18.snow_canon_key sn e he
  obtain ⟨w1, hw1⟩ := Proofs.C18.snow_segment_has_key he hs
  apply Proofs.C18.getFake_eq_resolve
  · intro w hw
    rw [Proofs.C18.snow_value fk ig sn _ _ hw1] at hw
    cases hw
    exact Proofs.C18.snow_table_value sn hc e he _ (by rw [Proofs.C18.canon_lower, hany]) w1 hw1
  · rw [hany]
    exact ⟨wc, Proofs.C18.snow_value fk ig sn _ _ hwc⟩
  · intro w hw
    rw [hany, Proofs.C18.snow_value fk ig sn _ _ hwc] at hw
    cases hw
    exact Proofs.C18.snow_table_value sn hc e he _ (Proofs.C18.canon_canon _) wc hwc

instance (es : List (Str × TVal)) : Decidable (Consistent es) := by
  unfold Consistent; infer_instance

/-- The attributes of `FakeNames` on the pinned commit are consistent … -/
theorem snowDir_consistent : Consistent (snowDir.filter (visible [])) := by decide

/-- … so every spelling of `email`, `user_name`/`UserName`/`USER__NAME`/`U_sername`, `date_time`, …
    that is not literally a Faker attribute's name reaches Snowfakery's implementation in every
    locale and with every provider plugin. -/
theorem snowfakery_names_win (fk : DirList) (ig : List Str) (e : Str × TVal) (he : e ∈ snowDir)
    (s : Str) (hs : AnySpelling s e.1)
    (hlit : ∀ e' ∈ fk.filter (visible ig), lower e'.1 ≠ lower s) :
    getFake (buildTable fk ig snowDir) s = resolve e.2 := by
  have hv : snowDir.filter (visible []) = snowDir := by decide
  exact snow_wins fk ig snowDir snowDir_consistent e (by rw [hv]; exact he) s hs hlit

theorem snowfakery_names_win_all_or_none (fk : DirList) (ig : List Str) (e : Str × TVal)
    (he : e ∈ snowDir) (s : Str) (hs : Spelling s e.1) :
    getFake (buildTable fk ig snowDir) s = resolve e.2 := by
  have hv : snowDir.filter (visible []) = snowDir := by decide
  exact snow_wins_all_or_none fk ig snowDir snowDir_consistent e (by rw [hv]; exact he) s hs

/-- The side condition of `snow_wins` is necessary: with a Faker attribute `postal_code` (as in
    locale ko_KR) the spelling `postal_code` of Snowfakery's `postalcode` denotes Faker's. -/
theorem snow_wins_needs_hypothesis :
    ∃ (fk : DirList) (e : Str × TVal) (s : Str), e ∈ snowDir ∧ AnySpelling s e.1 ∧
      getFake (buildTable fk [] snowDir) s ≠ resolve e.2 :=
  ⟨[("postal_code".toList, .impl (.other "fk".toList))],
   ("postalcode".toList, .impl (.other "postalcode".toList)), "postal_code".toList,
   by decide, by unfold AnySpelling; decide, by decide⟩

/-- D18 is repaired: the spelling that used to be rejected resolves (regression witness). -/
theorem partial_underscore_resolves :
    getFake (buildTable [] [] snowDir) "date_timebetween".toList
      = .found (.other "date_time_between".toList) ∧
    getFake (buildTable [] [] snowDir) "Date__Time_Between".toList
      = .found (.other "date_time_between".toList) ∧
    getFake (buildTable [] [] snowDir) "date_timethis_year".toList = .noSuchName := by decide

/-! ## remembered values -/

/-- A successful call is remembered under the canonical form of the spelling used — so that
    `fake: first_name`, `fake: FirstName`, `fake: FIRST_NAME` all feed `email`/`username`. -/
theorem step_remembers (t : List (Str × TVal)) (loc : Locals) (c : Call) (v : LVal)
    (h : (step t loc c).2 = .value v) :
    (step t loc c).1 = (canon c.spelling, v) :: loc := by
  unfold step at h ⊢
  cases hg : getFake t c.spelling with
  | noSuchName => simp [hg] at h
  | found p =>
    simp only [hg] at h ⊢
    cases p with
    | other tag => simp only at h ⊢; cases h; rfl
    | email =>
      simp only at h ⊢
      cases h1 : alreadyHave loc firstnameKey <;> cases h2 : alreadyHave loc lastnameKey <;>
        simp only [h1, h2] at h ⊢ <;> try (cases h)
      split at h <;> simp_all [canon]
    | userName =>
      simp only at h ⊢
      cases h1 : alreadyHave loc firstnameKey <;> cases h2 : alreadyHave loc lastnameKey <;>
        simp only [h1, h2] at h ⊢ <;> try (cases h)
      rfl

/-! ## whole call histories -/

/-- Every result of a run is the result of one `step` from *some* remembered-values dictionary —
    so whatever holds for `step` from every dictionary holds at every position of every history. -/
theorem run_result_is_step (t : List (Str × TVal)) (calls : List Call) (loc : Locals) (i : Nat)
    (c : Call) (r : Res) (h1 : calls[i]? = some c) (h2 : (runCalls t loc calls)[i]? = some r) :
    ∃ loc', r = (step t loc' c).2 := by
  induction calls generalizing loc i with
  | nil => simp at h1
  | cons c0 cs ih =>
    unfold runCalls at h2
    simp only at h2
    cases i with
    | zero =>
      simp only [List.getElem?_cons_zero, Option.some.injEq] at h1
      subst h1
      refine ⟨loc, ?_⟩
      split at h2 <;> simpa using h2.symm
    | succ j =>
      simp only [List.getElem?_cons_succ] at h1
      split at h2
      · simp at h2
      · simp only [List.getElem?_cons_succ] at h2
        exact ih _ _ h1 h2

/-- **For every history of `fake` calls in a template execution** (any spellings, any providers,
    any names remembered or overwritten on the way), every value returned by Snowfakery's `email`
    is an address in a reserved domain (Faker's contract assumed for the draws of that call). -/
theorem run_email_reserved (t : List (Str × TVal)) (calls : List Call) (loc : Locals) (i : Nat)
    (c : Call) (r : Res) (h1 : calls[i]? = some c) (h2 : (runCalls t loc calls)[i]? = some r)
    (hres : getFake t c.spelling = .found .email)
    (ht : c.d.tmpl < 60) (hy : 1000 ≤ c.d.year)
    (hd : c.d.domain ∈ reservedDomains) (hfb : ReservedAddr c.d.fallback) :
    r = .outsideModel ∨ ∃ s, r = .value (.str s) ∧ ReservedAddr s := by
  obtain ⟨loc', rfl⟩ := run_result_is_step t calls loc i c r h1 h2
  exact step_email_reserved t loc' c hres ht hy hd hfb

/-- … and every value returned by Snowfakery's `user_name` has at most 80 characters, exactly
    one `@`, and the drawn host name after it. -/
theorem run_username_safe (t : List (Str × TVal)) (calls : List Call) (loc : Locals) (i : Nat)
    (c : Call) (r : Res) (h1 : calls[i]? = some c) (h2 : (runCalls t loc calls)[i]? = some r)
    (hres : getFake t c.spelling = .found .userName)
    (hh : c.d.host.length ≤ 79)
    (n1 : '@' ∉ c.d.first) (n2 : '@' ∉ c.d.last) (n3 : '@' ∉ c.d.uuid) (n4 : '@' ∉ c.d.host) :
    r = .outsideModel ∨
      ∃ s, r = .value (.str s) ∧ s.length ≤ 80 ∧ s.count '@' = 1 ∧ addrDomain s = c.d.host := by
  obtain ⟨loc', rfl⟩ := run_result_is_step t calls loc i c r h1 h2
  unfold step
  rw [hres]
  simp only
  cases e1 : alreadyHave loc' firstnameKey with
  | none => exact Or.inl rfl
  | some fn =>
    cases e2 : alreadyHave loc' lastnameKey with
    | none => exact Or.inl rfl
    | some ln =>
      right
      exact ⟨_, rfl, username_len fn ln c.matching c.d.user hh,
        username_one_at fn ln (alreadyHave_sanitised _ _ _ e1) (alreadyHave_sanitised _ _ _ e2)
          c.matching c.d.user n1 n2 n3 n4,
        username_domain fn ln c.matching c.d.user n4⟩

/-! ## non-vacuity -/

example : sanitise "O'Brien-Smith Jr.".toList = some "OBrienSmithJr".toList := by decide
example : sanitise "Þór".toList = none := by decide
example : emailBuilt "A".toList "Smith".toList
    { tmpl := 26, domain := "example.com".toList, year := 1987, fallback := [] }
    = some "A.Smith7@example.com".toList := by decide
example : emailBuilt "A".toList "Smith".toList
    { tmpl := 59, domain := "example.org".toList, year := 1987, fallback := [] }
    = some "A_+Smith@example.org".toList := by decide
example : ReservedAddr "x@example.net".toList := by unfold ReservedAddr; decide
example : (userName (some "Al".toList) (some "Bo".toList) true
    { host := "db-01.x.com".toList, first := [], last := [],
      uuid := "886023f2-eb7a-4d6b-9c1e-0123456789ab".toList }).length = 54 := by decide
example : UuidSurvives (some "Al".toList) (some "Bo".toList) true
    { host := "db-01.x.com".toList, first := [], last := [],
      uuid := "886023f2-eb7a-4d6b-9c1e-0123456789ab".toList } := by unfold UuidSurvives; decide
example : Spelling "User_NAME".toList "user_name".toList ∧ Spelling "UserName".toList "user_name".toList := by
  unfold Spelling; decide
example : AnySpelling "U_ser__NAME".toList "user_name".toList := by unfold AnySpelling; decide
example : getFake (buildTable [("user_name".toList, .impl (.other "faker".toList))] [] snowDir)
    "USERNAME".toList = .found .userName := by decide

end SnowModel.Props.C18
