/-
C10 — random_reference picks existing, correctly scoped targets; unique never repeats.
Property theorems only (helper lemmas: `SnowModel/Proofs/C10a.lean`, `C10b.lean`).

Model: `SnowModel/Core/History.lean` (`RowHistory`, `RandomReferenceContext.unique_random`,
`Interpreter.get_contextual_state`, `find_tables_to_keep_history_for`).  All theorems quantify over
arbitrary operation sequences / request sequences / states; draws are arbitrary within the range
handed to the randomizer.
-/
import SnowModel.Core.History
import SnowModel.Proofs.C10
import SnowModel.Props.C12

namespace SnowModel.Props.C10
open SnowModel.History
open SnowModel.RandRange (Mk Out values)

/-! ### vocabulary -/

/-- Naming discipline of one traced call relative to the nickname map `nm`
    (`nickname_to_tablename`): a row saved under a name that `nm` knows as a nickname is a row of the
    table `nm` gives for it (outside it — one nickname on templates of two tables — the lookup by
    ordinal can miss: D02 territory).  Nothing is required of table names any more: since fix
    07a822a a nickname spelled like another table's name cannot disturb that table (C02/D57), and
    no table-scope theorem below carries a naming hypothesis. -/
abbrev WellNamedOp (nm : List (Name × Name)) (op : Op) : Prop := Proofs.C10.WellNamedOp nm op

/-- Ids are saved densely: an ordinary `save_row` of table `t` carries the next id of `t`
    (`table_counters[t] + 1`); the re-saves after a continuation name ids not above the counter.
    False exactly when an id of `t` is reserved ahead (forward reference to a nickname, D07) or rows
    of `t` nest. -/
abbrev DenseTrace (s : St) (ops : List Op) : Prop := Proofs.C10.DenseTrace s ops

/-- Ids are fresh: an ordinary `save_row` of table `t` carries an id above `local_counters[t]`,
    i.e. above every id the earlier iterations knew (ids come from the increasing `IdManager`
    counter; reserving ahead and nesting keep this true). -/
abbrev FreshTrace (s : St) (ops : List Op) : Prop := Proofs.C10.FreshTrace s ops

/-- The row was saved by the running iteration: since the last `reset_locals`, and not by
    `resave_objects_from_continuation` (by `resaved_rows_not_current` the second conjunct follows
    from the first since fix 9826fcb). -/
def Current (s : St) (r : SRow) : Prop := r.since = s.epoch ∧ r.resaved = false

instance (s : St) (r : SRow) : Decidable (Current s r) := by unfold Current; infer_instance

/-- Row `(T, i)` exists: created by an earlier run (`i ≤ orig_used_ids[T]`) or saved in this one. -/
def Existing (s : St) (T : Name) (i : Nat) : Prop :=
  (1 ≤ i ∧ i ≤ s.prior T) ∨ ∃ r ∈ s.rows, r.table = T ∧ r.id = i

instance (s : St) (T : Name) (i : Nat) : Decidable (Existing s T i) := by unfold Existing; infer_instance

/-- The ids of `T` saved by the running iteration are exactly `(localCtr T, tableCtr T]`, and every
    id up to `tableCtr T` exists. -/
def ContiguousSaves (s : St) (T : Name) : Prop :=
  (∀ r ∈ s.rows, r.table = T → r.since = s.epoch → r.resaved = false →
      s.localCtr T < r.id ∧ r.id ≤ s.tableCtr T) ∧
  (∀ i, i ≤ s.tableCtr T → s.localCtr T < i →
      ∃ r ∈ s.rows, r.table = T ∧ r.id = i ∧ r.since = s.epoch ∧ r.resaved = false) ∧
  (∀ i, i ≤ s.tableCtr T → 1 ≤ i → Existing s T i)

instance (s : St) (T : Name) : Decidable (ContiguousSaves s T) := by
  unfold ContiguousSaves Existing; infer_instance

/-! ### the range handed to the randomizer -/

/-- `random_row_reference` never calls `randint(lo, hi)` with an empty or non-positive range. -/
theorem pick_range_wf (s : St) (name : Name) (sc : Scope) (pr : PickRange)
    (h : pickRange s name sc = .ok pr) : 1 ≤ pr.lo ∧ pr.lo ≤ pr.hi := by
  have key : ∀ (nick : Option Name) (table : Name) (M loc : Nat),
      (if sc = .other then (.error .badScope : Except Err PickRange)
        else if M = 0 then .error .noRows
        else .ok { nick := nick, table := table, lo := fallback (Proofs.C10.minIdOf sc loc) M, hi := M }) = .ok pr →
      1 ≤ pr.lo ∧ pr.lo ≤ pr.hi := by
    intro nick table M loc hk
    split_ifs at hk with h1 h2
    simp only [Except.ok.injEq] at hk
    subst hk
    have := Proofs.C10.minIdOf_ge_one sc loc
    simp only [fallback]
    split <;> omega
  cases hl : s.nickToTable.lookup name with
  | some T => rw [Proofs.C10.pickRange_nick s name T sc hl] at h; exact key _ _ _ _ h
  | none => rw [Proofs.C10.pickRange_table s name sc hl] at h; exact key _ _ _ _ h

/-! ### nickname scope -/

/-- **Nickname scope.**  After *any* successful op sequence that respects the naming discipline,
    `random_reference: n` (any scope, any draw in the range) returns a saved row that carries
    nickname `n`, lies in `n`'s table and has the drawn ordinal; with `current-iteration` scope it
    is a row saved since the last `reset_locals` whenever such a row of `n` exists (otherwise an
    earlier one: the whole-table fallback). -/
theorem rr_nickname_scope (counters : List (Name × Nat)) (tables : List Name)
    (nickmap : List (Name × Name)) (ops : List Op) (s : St)
    (hrun : run (init counters tables nickmap) ops = .ok s)
    (hwn : ∀ op ∈ ops, WellNamedOp (init counters tables nickmap).nickToTable op)
    (n T : Name) (hn : s.nickToTable.lookup n = some T)
    (sc : Scope) (pr : PickRange) (hpr : pickRange s n sc = .ok pr)
    (draw : Nat) (hlo : pr.lo ≤ draw) (hhi : draw ≤ pr.hi) :
    ∃ r ∈ s.rows, pick s n sc draw = .ok (T, r.id) ∧ r.table = T ∧ r.nick = some n ∧
      r.ord = some draw ∧
      (sc = .current → (∃ r' ∈ s.rows, r'.nick = some n ∧ r'.since = s.epoch) → r.since = s.epoch) := by
  have hn0 : (init counters tables nickmap).nickToTable.lookup n = some T := by
    rw [← (Proofs.C10.run_nickToTable ops _ s hrun).1]; exact hn
  have hi := Proofs.C10.run_invariant' (init counters tables nickmap).nickToTable
    (fun s => Proofs.C10.NickInv s n T)
    (fun s op s1 o hp hw hs => Proofs.C10.nickInv_step _ n T hn0 s op s1 o hp hw hs)
    ops _ s (Proofs.C10.nickInv_init counters tables nickmap n T) hwn hrun
  -- unfold the range computation
  have hwf := pick_range_wf s n sc pr hpr
  have hpr' := hpr
  rw [Proofs.C10.pickRange_nick s n T sc hn] at hpr
  split_ifs at hpr with h1 h2
  simp only [Except.ok.injEq] at hpr
  subst hpr
  simp only at hlo hhi hwf
  obtain ⟨r0, hr0, hr0n, hr0o⟩ := hi.ex draw (by omega) hhi
  have hr0t := hi.tbl r0 hr0 hr0n
  -- the lookup finds a row with these three attributes
  have hfind : ∃ r ∈ s.rows, findRow s T n draw = some r.id ∧ r.table = T ∧ r.nick = some n ∧ r.ord = some draw := by
    unfold findRow
    cases hf : s.rows.find? (fun r => decide (r.table = T ∧ r.nick = some n ∧ r.ord = some draw)) with
    | none =>
      exfalso
      have := List.find?_eq_none.1 hf r0 hr0
      simp [hr0t, hr0n, hr0o] at this
    | some r =>
      have hp := List.find?_some hf
      simp only [decide_eq_true_eq] at hp
      exact ⟨r, List.mem_of_find?_eq_some hf, rfl, hp⟩
  obtain ⟨r, hr, hfr, hrt, hrn, hro⟩ := hfind
  refine ⟨r, hr, ?_, hrt, hrn, hro, ?_⟩
  · simp only [pick, hpr', resolve, hfr]
  · intro hsc ⟨r', hr', hr'n, hr's⟩
    subst hsc
    obtain ⟨k', hk1, hk2, hk3⟩ := hi.ordle r' hr' hr'n
    have hk4 := (hi.win r' hr' hr'n k' hk1).1 hr's
    refine (hi.win r hr hrn draw hro).2 ?_
    rw [Proofs.C10.fallback_current] at hlo
    split_ifs at hlo <;> omega

/-- **Re-saved just_once rows are never "current"** (fix 9826fcb: `resave_objects_from_continuation`
    ends with `reset_locals()`): after any op sequence, a row saved by `Op.resave` lies strictly
    before the current window. -/
theorem resaved_rows_not_current (counters : List (Name × Nat)) (tables : List Name)
    (nickmap : List (Name × Name)) (ops : List Op) (s : St)
    (hrun : run (init counters tables nickmap) ops = .ok s) :
    ∀ r ∈ s.rows, r.resaved = true → r.since < s.epoch :=
  (Proofs.C10.resavedOld_run ops _ s ⟨by simp [init], by simp [init]⟩ hrun).2

/-- The iteration reading of `rr_nickname_scope`: "a row created in the current *iteration* if one
    with that nickname exists" (refuted before fix 9826fcb — finding D41, formerly D23 —, see
    `rr_nickname_iteration_scope`). -/
def NicknameIterationScope : Prop :=
  ∀ (counters : List (Name × Nat)) (tables : List Name) (nickmap : List (Name × Name))
    (ops : List Op) (s : St),
    run (init counters tables nickmap) ops = .ok s →
    (∀ op ∈ ops, WellNamedOp (init counters tables nickmap).nickToTable op) →
    ∀ (n T : Name), s.nickToTable.lookup n = some T →
    ∀ (pr : PickRange), pickRange s n .current = .ok pr →
    ∀ (draw : Nat), pr.lo ≤ draw → draw ≤ pr.hi →
    ∀ r ∈ s.rows, pick s n .current draw = .ok (T, r.id) → r.table = T →
      (∃ r' ∈ s.rows, r'.nick = some n ∧ Current s r') → Current s r

/-- Helper for concrete witnesses: the state a successful run ends in. -/
def okOr (d : St) : Except Err St → St
  | .ok s => s
  | .error _ => d

theorem eq_okOr {e : Except Err St} {s : St} (d : St) (h : e = .ok s) : s = okOr d e := by
  rw [h]; rfl

/-- **Nickname scope, iteration reading, full strength** (was refuted by the D41 witness before the
    fix): whenever a row with nickname `n` was created by the running iteration, the row returned by
    `random_reference: n` was created by the running iteration — in every state reachable by a
    well-named op sequence, continuation re-saves included. -/
theorem rr_nickname_iteration_scope : NicknameIterationScope := by
  intro counters tables nickmap ops s hrun hwn n T hn pr hpr draw hlo hhi r hr hpick hrt ⟨r', hr', hr'n, hr'c⟩
  obtain ⟨r2, hr2, h1, h2, h3, h4, h5⟩ :=
    rr_nickname_scope counters tables nickmap ops s hrun hwn n T hn .current pr hpr draw hlo hhi
  have hw := h5 rfl ⟨r', hr', hr'n, hr'c.1⟩
  -- `r` need not be `r2` syntactically, but both carry the drawn id of table T: use the lookup
  have hid : r.id = r2.id := by
    rw [hpick] at h1
    simp only [Except.ok.injEq, Prod.mk.injEq, true_and] at h1
    exact h1
  -- ids are unique per table (sqlite UNIQUE, modelled by `save`): r and r2 are the same row
  have huniq := Proofs.C10.ids_unique_run ops _ s (by simp [Proofs.C10.IdsUnique, init]) hrun
  have : r = r2 := huniq r hr r2 hr2 (hrt.trans h2.symm) hid
  subst this
  have hres := resaved_rows_not_current counters tables nickmap ops s hrun r hr
  refine ⟨hw, ?_⟩
  cases hb : r.resaved with
  | false => rfl
  | true => have := hres hb; omega

/-- D41 scenario on the repaired model: a continued run (`orig_used_ids = {T: 3}`) re-saves the
    just_once row `T(1)` of nickname `n`, then the iteration creates `T(4)` under the same nickname:
    the range handed to the randomizer is `[2, 2]` (before the fix: `[1, 2]`). -/
def d41Init : St := init [("T", 3)] ["T"] [("n", "T"), ("T", "T")]
def d41Ops : List Op := [.resave [("T", some "n", 1)], .save "T" (some "n") 4]

/-! ### table scope -/

/-- **Table scope, one step, any state** under the decidable hypothesis `ContiguousSaves`:
    the result is the drawn id, that row exists, and it was created by the running iteration
    whenever the iteration has created a row of the table (`current-iteration` scope). -/
theorem rr_table_scope_partial (s : St) (T : Name) (hT : s.nickToTable.lookup T = none)
    (hc : ContiguousSaves s T) (sc : Scope) (pr : PickRange) (hpr : pickRange s T sc = .ok pr)
    (draw : Nat) (hlo : pr.lo ≤ draw) (hhi : draw ≤ pr.hi) :
    pick s T sc draw = .ok (T, draw) ∧ Existing s T draw ∧
      (sc = .current → (∃ r' ∈ s.rows, r'.table = T ∧ Current s r') →
        ∃ r ∈ s.rows, r.table = T ∧ r.id = draw ∧ Current s r) := by
  have hwf := pick_range_wf s T sc pr hpr
  have hpr' := hpr
  rw [Proofs.C10.pickRange_table s T sc hT] at hpr
  split_ifs at hpr with h1 h2
  simp only [Except.ok.injEq] at hpr
  subst hpr
  simp only at hlo hhi hwf
  obtain ⟨hcur, hfill, hex⟩ := hc
  refine ⟨by simp only [pick, hpr', resolve], hex draw hhi (by omega), ?_⟩
  intro hsc ⟨r', hr', hr't, hr'c⟩
  subst hsc
  have := hcur r' hr' hr't hr'c.1 hr'c.2
  rw [Proofs.C10.fallback_current] at hlo
  obtain ⟨r, hr, e1, e2, e3, e4⟩ := hfill draw hhi (by split_ifs at hlo <;> omega)
  exact ⟨r, hr, e1, e2, e3, e4⟩

/-- **`ContiguousSaves` is an invariant of dense traces**: after any successful op sequence that
    saves ids densely it holds for every name `T` — whatever nicknames the rows are saved under,
    including nicknames spelled like `T` (no naming hypothesis since fix 07a822a). -/
theorem contiguous_of_dense (counters : List (Name × Nat)) (tables : List Name)
    (nickmap : List (Name × Name)) (ops : List Op) (s : St)
    (hrun : run (init counters tables nickmap) ops = .ok s)
    (hd : DenseTrace (init counters tables nickmap) ops)
    (T : Name) : ContiguousSaves s T := by
  have hi := Proofs.C10.run_invariant [] Proofs.C10.DenseOp (fun s => Proofs.C10.TableInv s T)
    (fun s op s1 o hp hw hdo hs => Proofs.C10.tableInv_step [] T rfl s op s1 o hp hw hdo hs)
    ops _ s (Proofs.C10.tableInv_init counters tables nickmap T)
    (fun op _ => Proofs.C10.wellNamed_nil op) hd hrun
  refine ⟨hi.cur, fun i h1 h2 => hi.fill i h2 h1, fun i h1 h2 => ?_⟩
  rcases hi.ex i h2 h1 with h | h
  · exact Or.inl ⟨h2, h⟩
  · exact Or.inr h

/-- **Table scope over arbitrary dense op sequences** — no naming hypothesis: a table-name pick
    names an existing row also when rows are saved under a nickname spelled like that table
    (`object: C, nickname: A` next to `object: A`; before fix 07a822a the nickname's ordinals
    overwrote table `A`'s counter and the pick could name a row that does not exist: C02/D57). -/
theorem rr_table_scope_dense (counters : List (Name × Nat)) (tables : List Name)
    (nickmap : List (Name × Name)) (ops : List Op) (s : St)
    (hrun : run (init counters tables nickmap) ops = .ok s)
    (hd : DenseTrace (init counters tables nickmap) ops)
    (T : Name) (hT : s.nickToTable.lookup T = none)
    (sc : Scope) (pr : PickRange) (hpr : pickRange s T sc = .ok pr)
    (draw : Nat) (hlo : pr.lo ≤ draw) (hhi : draw ≤ pr.hi) :
    pick s T sc draw = .ok (T, draw) ∧ Existing s T draw ∧
      (sc = .current → (∃ r' ∈ s.rows, r'.table = T ∧ Current s r') →
        ∃ r ∈ s.rows, r.table = T ∧ r.id = draw ∧ Current s r) :=
  rr_table_scope_partial s T hT (contiguous_of_dense counters tables nickmap ops s hrun hd T)
    sc pr hpr draw hlo hhi

/-- FULL STATEMENT (refuted below, D07): `rr_table_scope_dense` without `DenseTrace`. -/
def TableScopeFull : Prop :=
  ∀ (counters : List (Name × Nat)) (tables : List Name) (nickmap : List (Name × Name))
    (ops : List Op) (s : St),
    run (init counters tables nickmap) ops = .ok s →
    (∀ op ∈ ops, WellNamedOp (init counters tables nickmap).nickToTable op) →
    ∀ (T : Name), s.nickToTable.lookup T = none →
    ∀ (pr : PickRange), pickRange s T .current = .ok pr →
    ∀ (draw : Nat), pr.lo ≤ draw → draw ≤ pr.hi → Existing s T draw

/-- D07 witness: `A{fwd: reference n}` reserves `T(1)` for the nickname; the two plain `T` rows get
    ids 2 and 3; `P{r: random_reference T}` runs before `T(1)` is created. -/
def d07Init : St := init [] ["T"] [("n", "T"), ("T", "T"), ("A", "A"), ("P", "P")]
def d07Ops : List Op := [.save "T" none 2, .save "T" none 3]

/-- **Refuted on the real code (finding D07, not repaired by 9826fcb).**  With a forward-reserved id
    outstanding the range handed to the randomizer is `[1, 3]`; draw 1 returns `T(1)`, which does
    not exist yet. -/
theorem rr_table_scope_refuted : ¬ TableScopeFull := by
  intro h
  have hrun : run d07Init d07Ops = .ok (okOr d07Init (run d07Init d07Ops)) := rfl
  have := h [] ["T"] [("n", "T"), ("T", "T"), ("A", "A"), ("P", "P")] d07Ops _ hrun (by decide) "T" (by decide)
    { nick := none, table := "T", lo := 1, hi := 3 } (by decide) 1 (by decide) (by decide)
  revert this
  decide

/-! ### monotone counters (fix 9826fcb) and what follows without `DenseTrace` -/

/-- **`table_counters[T]` never moves backwards**, `local_counters[T]` neither, the window bound
    never exceeds the counter, and between two states either no `reset_locals` happened or the
    window moved past the old counter — for EVERY op sequence `ops2` continuing any reachable
    state and every name `T`, without any naming hypothesis: only `save_row(T, …)` writes
    `table_counters[T]` (before fix 07a822a a row saved under a *nickname* spelled `T` overwrote it
    with the nickname ordinal — C02/D57 —, before fix 9826fcb the D07 witness lowered it 3 → 1). -/
theorem tableCtr_monotone (counters : List (Name × Nat)) (tables : List Name)
    (nickmap : List (Name × Name)) (ops1 ops2 : List Op) (s s' : St)
    (hrun1 : run (init counters tables nickmap) ops1 = .ok s) (hrun2 : run s ops2 = .ok s')
    (T : Name) :
    s.tableCtr T ≤ s'.tableCtr T ∧ s.localCtr T ≤ s'.localCtr T ∧ s'.localCtr T ≤ s'.tableCtr T ∧
      (s'.localCtr T = s.localCtr T ∨ s.tableCtr T ≤ s'.localCtr T) := by
  have m1 := Proofs.C10.mono_run [] T rfl ops1 _ s (by simp [init]) (fun op _ => Proofs.C10.wellNamed_nil op) hrun1
  have m2 := Proofs.C10.mono_run [] T rfl ops2 s s' m1.le (fun op _ => Proofs.C10.wellNamed_nil op) hrun2
  exact ⟨m2.tc, m2.lc, m2.le, m2.mv⟩

/-- **Ranges handed to one `unique` context are compatible** (the D07c statement, full strength):
    two `current-iteration` ranges of table `T` computed at an earlier and a later state, both with
    rows in their window, either share the minimum with a top that did not shrink, or the later
    one starts above the earlier top — exactly the precondition of `set_new_range`. -/
theorem ranges_compatible (counters : List (Name × Nat)) (tables : List Name)
    (nickmap : List (Name × Name)) (ops1 ops2 : List Op) (s s' : St)
    (hrun1 : run (init counters tables nickmap) ops1 = .ok s) (hrun2 : run s ops2 = .ok s')
    (T : Name) (hT : s.nickToTable.lookup T = none)
    (pr pr' : PickRange) (hpr : pickRange s T .current = .ok pr) (hpr' : pickRange s' T .current = .ok pr')
    (hw : s.localCtr T < s.tableCtr T) (hw' : s'.localCtr T < s'.tableCtr T) :
    (pr'.lo = pr.lo ∧ pr.hi ≤ pr'.hi) ∨ pr.hi + 1 ≤ pr'.lo := by
  obtain ⟨m1, m2, m3, m4⟩ := tableCtr_monotone counters tables nickmap ops1 ops2 s s' hrun1 hrun2 T
  have hT' : s'.nickToTable.lookup T = none := by
    rw [(Proofs.C10.run_nickToTable ops2 s s' hrun2).1]; exact hT
  rw [Proofs.C10.pickRange_table_window s T hT hw] at hpr
  rw [Proofs.C10.pickRange_table_window s' T hT' hw'] at hpr'
  simp only [Except.ok.injEq] at hpr hpr'
  subst hpr hpr'
  simp only
  rcases m4 with h | h
  · left; omega
  · right; omega

/-- **Table scope without `DenseTrace`** (the D07b statement, full strength): after ANY op
    sequence, when the window of `T` is non-empty (`local_counters[T] < table_counters[T]`), the
    drawn id is above every id of an earlier run, and every *saved* row carrying it was saved by the
    running iteration.  So the result is a current row or an id not saved yet (reserved ahead: D07)
    — never a row of an earlier iteration. -/
theorem rr_table_scope_no_earlier_row (counters : List (Name × Nat)) (tables : List Name)
    (nickmap : List (Name × Name)) (ops : List Op) (s : St)
    (hrun : run (init counters tables nickmap) ops = .ok s)
    (T : Name) (hT : s.nickToTable.lookup T = none) (hw : s.localCtr T < s.tableCtr T)
    (pr : PickRange) (hpr : pickRange s T .current = .ok pr)
    (draw : Nat) (hlo : pr.lo ≤ draw) (hhi : draw ≤ pr.hi) :
    pick s T .current draw = .ok (T, draw) ∧ s.prior T < draw ∧
      ∀ r ∈ s.rows, r.table = T → r.id = draw → Current s r := by
  have hi := Proofs.C10.run_invariant' [] (fun s => Proofs.C10.OrdInv s T)
    (fun s op s1 o hp hw hs => Proofs.C10.ordInv_step [] T rfl s op s1 o hp hw hs)
    ops _ s (Proofs.C10.ordInv_init counters tables nickmap T)
    (fun op _ => Proofs.C10.wellNamed_nil op) hrun
  have hres := resaved_rows_not_current counters tables nickmap ops s hrun
  have hpr' := hpr
  rw [Proofs.C10.pickRange_table_window s T hT hw] at hpr
  simp only [Except.ok.injEq] at hpr
  subst hpr
  simp only at hlo hhi
  have hp := hi.pri
  refine ⟨by simp only [pick, hpr', resolve], by omega, ?_⟩
  intro r hr hrt hrid
  have hep := hi.ep r hr
  have hs : r.since = s.epoch := by
    by_contra hne
    have := hi.old r hr hrt (by omega)
    omega
  refine ⟨hs, ?_⟩
  cases hb : r.resaved with
  | false => rfl
  | true => have := hres r hr hb; omega

/-- **Rows of the running iteration lie inside the range** (the D07d statement): under `FreshTrace`
    every current row of `T` has its id in `(local_counters[T], table_counters[T]]`.  Hence the window
    is non-empty whenever the iteration created a row of `T`, the range `[lo, hi]` contains every
    eligible target, and by `unique_succeeds_iff_unused_left` a unique pick cannot report exhaustion
    while one of them is unused. -/
theorem current_rows_in_range (counters : List (Name × Nat)) (tables : List Name)
    (nickmap : List (Name × Name)) (ops : List Op) (s : St)
    (hrun : run (init counters tables nickmap) ops = .ok s)
    (hf : FreshTrace (init counters tables nickmap) ops) (T : Name) :
    ∀ r ∈ s.rows, r.table = T → Current s r → s.localCtr T < r.id ∧ r.id ≤ s.tableCtr T := by
  have hi := Proofs.C10.run_invariant [] Proofs.C10.FreshOp (fun s => Proofs.C10.FreshInv s T)
    (fun s op s1 o hp hw hc hs => Proofs.C10.freshInv_step [] T s op s1 o hp hw hc hs)
    ops _ s ⟨by simp [init], by simp [init]⟩ (fun op _ => Proofs.C10.wellNamed_nil op) hf hrun
  have ho := Proofs.C10.run_invariant' [] (fun s => Proofs.C10.OrdInv s T)
    (fun s op s1 o hp hw hs => Proofs.C10.ordInv_step [] T rfl s op s1 o hp hw hs)
    ops _ s (Proofs.C10.ordInv_init counters tables nickmap T)
    (fun op _ => Proofs.C10.wellNamed_nil op) hrun
  intro r hr hrt hc
  exact ⟨hi.2 r hr hrt hc.1 hc.2, ho.all r hr hrt⟩

/-- **Table scope under `FreshTrace` only**: if the running iteration created a row of `T`, the
    result is never a row of an earlier iteration or run (it is a current row, or — D07 — an id
    reserved ahead that is not saved yet). -/
theorem rr_table_scope_fresh (counters : List (Name × Nat)) (tables : List Name)
    (nickmap : List (Name × Name)) (ops : List Op) (s : St)
    (hrun : run (init counters tables nickmap) ops = .ok s)
    (hf : FreshTrace (init counters tables nickmap) ops)
    (T : Name) (hT : s.nickToTable.lookup T = none)
    (hcur : ∃ r' ∈ s.rows, r'.table = T ∧ Current s r')
    (pr : PickRange) (hpr : pickRange s T .current = .ok pr)
    (draw : Nat) (hlo : pr.lo ≤ draw) (hhi : draw ≤ pr.hi) :
    pick s T .current draw = .ok (T, draw) ∧ s.prior T < draw ∧
      ∀ r ∈ s.rows, r.table = T → r.id = draw → Current s r := by
  obtain ⟨r', hr', hr't, hr'c⟩ := hcur
  have := current_rows_in_range counters tables nickmap ops s hrun hf T r' hr' hr't hr'c
  exact rr_table_scope_no_earlier_row counters tables nickmap ops s hrun T hT (by omega) pr hpr draw hlo hhi

/-- The D57 scenario (`object: A` and `object: C, nickname: A`; the table name wins in
    `nicknames_and_tables`, so `random_reference: A` is a TABLE pick): three rows of `C` saved under
    nickname `A` leave table `A`'s counter at 1, the range handed to the randomizer is `[1, 1]`
    (before fix 07a822a: `[1, 3]`, naming the non-existent rows `A(2)`, `A(3)`). -/
def d57Init : St := init [] ["A", "C"] [("A", "A"), ("C", "C")]
def d57Ops : List Op := [.resave [], .save "A" none 1, .save "C" (some "A") 1, .save "C" (some "A") 2,
  .save "C" (some "A") 3]

/-! ### unique -/

/-- Requests that keep the minimum and never lower the top: what `unique_random` sees while the
    eligible range only grows (within an iteration; or the whole-table fallback). -/
def ExtReqs (a : Int) : Int → List (Int × Int) → Prop
  | _, [] => True
  | cur, (x, y) :: rest => x = a ∧ cur ≤ y ∧ ExtReqs a y rest

/-- The top of the last request (or `cur`). -/
def lastTop : Int → List (Int × Int) → Int
  | cur, [] => cur
  | _, (_, y) :: rest => lastTop y rest

theorem extReqs_iff {a cur : Int} {reqs : List (Int × Int)} :
    ExtReqs a cur reqs ↔ Proofs.C10.ExtReqsP a cur reqs := by
  induction reqs generalizing cur with
  | nil => simp [ExtReqs, Proofs.C10.ExtReqsP]
  | cons r reqs ih => obtain ⟨x, y⟩ := r; simp only [ExtReqs, Proofs.C10.ExtReqsP]; rw [ih]

theorem lastTop_eq (cur : Int) (reqs : List (Int × Int)) : lastTop cur reqs = Proofs.C10.lastTop cur reqs := by
  induction reqs generalizing cur with
  | nil => rfl
  | cons r reqs ih => obtain ⟨x, y⟩ := r; simp only [lastTop, Proofs.C10.lastTop]; exact ih y

/-- **unique ⇒ pairwise distinct**, for EVERY sequence of `(a, b)` requests — non-monotone ones
    included: growing, moving up to the next iteration's range, and the bottom moving back down
    (whole-table fallback after a move; see `unique_bottom_down_fails`), failing ones included — and every generator satisfying the C12 permutation
    theorem. -/
theorem unique_no_repeat (mk : Mk) (hmk : C12.GoodMk mk) (reqs : List (Int × Int)) :
    (values (uniqueRun mk none reqs).2).Nodup := by
  have := Proofs.C10.uniqueRun_inv1 mk hmk reqs none [] rfl
  rw [List.nil_append] at this
  exact Proofs.C10.uinv1_nodup this

/-- Every value returned for a request `(a, b)` lies in `[a, b]` — so a unique pick is a pick with
    a draw inside the range, and the scope theorems above apply to it. -/
theorem unique_in_range (mk : Mk) (hmk : C12.GoodMk mk) (pre : List (Int × Int)) (a b v : Int)
    (h : (uniqueDraw mk (uniqueRun mk none pre).1 a b).2 = .value v) : a ≤ v ∧ v ≤ b := by
  have := Proofs.C10.uniqueRun_inv1 mk hmk pre none [] rfl
  exact Proofs.C10.uniqueDraw_value_in_range mk hmk _ _ a b this v h

/-- A `unique` pick *is* a pick of the history machine with some draw in the range. -/
theorem uniquePick_is_pick (mk : Mk) (hmk : C12.GoodMk mk) (pre : List (Int × Int)) (s : St)
    (name : Name) (sc : Scope) (t : Name) (i : Nat)
    (h : (uniquePick mk s (uniqueRun mk none pre).1 name sc).2 = .picked t i) :
    ∃ pr draw, pickRange s name sc = .ok pr ∧ pr.lo ≤ draw ∧ draw ≤ pr.hi ∧
      pick s name sc draw = .ok (t, i) := by
  unfold uniquePick at h
  cases hpr : pickRange s name sc with
  | error e => rw [hpr] at h; cases h
  | ok pr =>
    rw [hpr] at h
    simp only at h
    cases hd : (uniqueDraw mk (uniqueRun mk none pre).1 pr.lo pr.hi).2 with
    | value v =>
      rw [hd] at h
      simp only at h
      have hb := unique_in_range mk hmk pre _ _ v hd
      refine ⟨pr, v.toNat, rfl, by omega, by omega, ?_⟩
      simp only [pick, hpr]
      cases hr : resolve s pr v.toNat with
      | error e => rw [hr] at h; cases h
      | ok p =>
        obtain ⟨t', i'⟩ := p
        rw [hr] at h
        simp only [UObs.picked.injEq] at h
        rw [h.1, h.2]
    | stop => rw [hd] at h; cases h
    | ok => rw [hd] at h; cases h
    | assertion => rw [hd] at h; cases h

/-- **Growth never fails** (the D06 layout `A count 5, friend B{a: random_reference{to: A,
    unique: true}}`): raising the top with the minimum unchanged never trips an assertion. -/
theorem unique_growth_never_fails (mk : Mk) (hmk : C12.GoodMk mk) (a b0 : Int) (hab : a ≤ b0)
    (reqs : List (Int × Int)) (hext : ExtReqs a b0 reqs) :
    Out.assertion ∉ (uniqueRun mk none ((a, b0) :: reqs)).2 := by
  obtain ⟨s1, v, h1, hinv, hc⟩ := Proofs.C10.uniqueDraw_first mk hmk a b0 hab
  obtain ⟨s', -, -, e3, -⟩ := Proofs.C10.uniqueRun_ext mk hmk a reqs s1 [v] b0 hinv hc (extReqs_iff.1 hext)
  simp only [uniqueRun, h1]
  rw [List.mem_cons, not_or]
  exact ⟨by simp, e3⟩

/-- Each request either keeps the minimum and does not lower the top, or starts above the previous
    top: what `ranges_compatible` guarantees for the ranges of one call site. -/
def CompatReqs : Int → Int → List (Int × Int) → Prop
  | _, _, [] => True
  | a0, cur, (x, y) :: rest => ((x = a0 ∧ cur ≤ y) ∨ (cur + 1 ≤ x ∧ x ≤ y)) ∧ CompatReqs x y rest

theorem compatReqs_iff {a0 cur : Int} {reqs : List (Int × Int)} :
    CompatReqs a0 cur reqs ↔ Proofs.C10.CompatReqsP a0 cur reqs := by
  induction reqs generalizing a0 cur with
  | nil => simp [CompatReqs, Proofs.C10.CompatReqsP]
  | cons r reqs ih => obtain ⟨x, y⟩ := r; simp only [CompatReqs, Proofs.C10.CompatReqsP]; rw [ih]

/-- **Compatible ranges never trip an `UpdatableRandomRange` assertion** (growth inside an
    iteration and moves to the next iteration's range, in any interleaving): together with
    `ranges_compatible` this is the D07c statement at full strength. -/
theorem unique_compatible_never_fails (mk : Mk) (hmk : C12.GoodMk mk) (a b : Int) (hab : a ≤ b)
    (reqs : List (Int × Int)) (hc : CompatReqs a b reqs) :
    Out.assertion ∉ (uniqueRun mk none ((a, b) :: reqs)).2 :=
  Proofs.C10.uniqueRun_compat_first mk hmk a b hab reqs (compatReqs_iff.1 hc)

/-- **The bottom of the range moves down** (whole-table fallback `min_id = 1` after the range had
    moved up: an iteration that creates no new target): `unique_random(a, b)` with `a` below the
    current range's bottom hits `assert new_min >= self.orig_max` — the outcome is `assertion`
    (a `DataGenError` for the user), the context is unchanged, and in particular *nothing is handed
    out*: no repeat is possible (`unique_no_repeat` covers these non-monotone histories too). -/
theorem unique_bottom_down_fails (mk : Mk) (hmk : C12.GoodMk mk) (pre : List (Int × Int))
    (s : RandRange.St) (hs : (uniqueRun mk none pre).1 = some s) (a b : Int) (ha : a < s.u.min) :
    uniqueDraw mk (uniqueRun mk none pre).1 a b = (some s, .assertion) := by
  have hinv := Proofs.C10.uniqueRun_inv1 mk hmk pre none [] rfl
  rw [hs] at hinv ⊢
  simp only [Proofs.C10.UInv1] at hinv
  have hlt := hinv.lt
  have hstep : RandRange.step mk s (.setRange a (b + 1)) = (s, .assertion) := by
    simp only [RandRange.step]
    rw [if_neg (by omega), if_neg (by omega)]
  simp [uniqueDraw, hstep]

/-- FULL STATEMENT (refuted below on the real code, finding D51): a unique pick fails only when
    every target of the requested range has been handed out. -/
def UniqueFailsOnlyWhenExhausted : Prop :=
  ∀ (mk : Mk), C12.GoodMk mk → ∀ (pre : List (Int × Int)) (a b : Int), a ≤ b →
    (∀ v, (uniqueDraw mk (uniqueRun mk none pre).1 a b).2 ≠ .value v) →
    ∀ x, a ≤ x → x ≤ b → x ∈ values (uniqueRun mk none pre).2

/-- **Refuted (finding D51)**: ranges `[1,2]`, `[3,4]` (the range moved up), then the fallback
    `[1,4]` (an iteration without new targets): the third request fails (assertion) although `2`
    and `4` were never handed out. -/
theorem unique_fails_only_when_exhausted_refuted : ¬ UniqueFailsOnlyWhenExhausted := by
  intro h
  have hmk : C12.GoodMk (fun _ a b => C12.rangeInt a b) := fun _ _ _ _ => List.Perm.refl _
  have hout : (uniqueDraw (fun _ a b => C12.rangeInt a b)
      (uniqueRun (fun _ a b => C12.rangeInt a b) none [(1, 2), (3, 4)]).1 1 4).2 = .assertion := by decide
  have := h (fun _ a b => C12.rangeInt a b) hmk [(1, 2), (3, 4)] 1 4 (by decide)
    (fun v => by rw [hout]; simp) 2 (by decide) (by decide)
  revert this
  decide

/-- **Partial (what holds)**: for growth-only histories (one iteration, or the whole-table fallback
    throughout) a unique pick fails only by exhaustion, and then every target of the range has been
    handed out. -/
theorem unique_fails_only_when_exhausted_partial (mk : Mk) (hmk : C12.GoodMk mk) (a b0 : Int) (hab : a ≤ b0)
    (reqs : List (Int × Int)) (hext : ExtReqs a b0 reqs) (b : Int) (hb : lastTop b0 reqs ≤ b)
    (hfail : ∀ v, (uniqueDraw mk (uniqueRun mk none ((a, b0) :: reqs)).1 a b).2 ≠ .value v) :
    (uniqueDraw mk (uniqueRun mk none ((a, b0) :: reqs)).1 a b).2 = .stop ∧
      ∀ x, a ≤ x → x ≤ b → x ∈ values (uniqueRun mk none ((a, b0) :: reqs)).2 := by
  obtain ⟨s1, v, h1, hinv, hc⟩ := Proofs.C10.uniqueDraw_first mk hmk a b0 hab
  obtain ⟨s', e1, e2, -, e4⟩ := Proofs.C10.uniqueRun_ext mk hmk a reqs s1 [v] b0 hinv hc (extReqs_iff.1 hext)
  rw [← lastTop_eq] at e4
  have hv : values (uniqueRun mk none ((a, b0) :: reqs)).2 = [v] ++ values (uniqueRun mk (some s1) reqs).2 := by
    simp only [uniqueRun, h1]
    rw [Proofs.C12.values_cons]; rfl
  have hst : (uniqueRun mk none ((a, b0) :: reqs)).1 = some s' := by
    simp only [uniqueRun, h1]; exact e1
  rw [hv]
  rw [hst] at hfail ⊢
  obtain ⟨s'', -, hcm, hcase⟩ := Proofs.C10.uniqueDraw_ext mk hmk a b s' _ e2 (by omega)
  rcases hcase with ⟨-, w, hw, -⟩ | ⟨hlen, hs, hinv2⟩
  · exact absurd hw (hfail w)
  · refine ⟨hs, fun x hx1 hx2 => ?_⟩
    have hp := Proofs.C10.inv2_full a s'' _ hinv2 (by rw [hcm]; exact hlen)
    rw [hcm] at hp
    exact hp.mem_iff.2 (Proofs.C12.mem_rangeIntP.2 ⟨hx1, by omega⟩)

/-- **A unique pick succeeds iff an unused target is left**: after any growth-only history on the
    range starting at `a`, a request `(a, b)` returns a value when fewer values than `b + 1 - a`
    have been handed out, and reports exhaustion (`StopIteration` → "Cannot find an unused …")
    otherwise.  In particular: pickers = targets all succeed, pickers = targets + 1 fails. -/
theorem unique_succeeds_iff_unused_left (mk : Mk) (hmk : C12.GoodMk mk) (a b0 : Int) (hab : a ≤ b0)
    (reqs : List (Int × Int)) (hext : ExtReqs a b0 reqs) (b : Int) (hb : lastTop b0 reqs ≤ b) :
    ((values (uniqueRun mk none ((a, b0) :: reqs)).2).length < (b + 1 - a).toNat →
        ∃ v, (uniqueDraw mk (uniqueRun mk none ((a, b0) :: reqs)).1 a b).2 = .value v) ∧
    ((b + 1 - a).toNat ≤ (values (uniqueRun mk none ((a, b0) :: reqs)).2).length →
        (uniqueDraw mk (uniqueRun mk none ((a, b0) :: reqs)).1 a b).2 = .stop) := by
  obtain ⟨s1, v, h1, hinv, hc⟩ := Proofs.C10.uniqueDraw_first mk hmk a b0 hab
  obtain ⟨s', e1, e2, -, e4⟩ := Proofs.C10.uniqueRun_ext mk hmk a reqs s1 [v] b0 hinv hc (extReqs_iff.1 hext)
  rw [← lastTop_eq] at e4
  have hv : values (uniqueRun mk none ((a, b0) :: reqs)).2 = [v] ++ values (uniqueRun mk (some s1) reqs).2 := by
    simp only [uniqueRun, h1]
    rw [Proofs.C12.values_cons]; rfl
  have hst : (uniqueRun mk none ((a, b0) :: reqs)).1 = some s' := by
    simp only [uniqueRun, h1]; exact e1
  rw [hv, hst]
  obtain ⟨s'', -, -, hcase⟩ := Proofs.C10.uniqueDraw_ext mk hmk a b s' _ e2 (by omega)
  constructor
  · intro hl
    rcases hcase with ⟨-, w, hw, -⟩ | ⟨hge, -, -⟩
    · exact ⟨w, hw⟩
    · omega
  · intro hl
    rcases hcase with ⟨hlt, -, -, -⟩ | ⟨-, hs, -⟩
    · omega
    · exact hs

/-- **Every eligible target is used**: when as many values were handed out as the final range has
    members, they are exactly the range (each target once). -/
theorem unique_all_used (mk : Mk) (hmk : C12.GoodMk mk) (a b0 : Int) (hab : a ≤ b0)
    (reqs : List (Int × Int)) (hext : ExtReqs a b0 reqs)
    (hlen : (lastTop b0 reqs + 1 - a).toNat ≤ (values (uniqueRun mk none ((a, b0) :: reqs)).2).length) :
    (values (uniqueRun mk none ((a, b0) :: reqs)).2).Perm (C12.rangeInt a (lastTop b0 reqs + 1)) := by
  obtain ⟨s1, v, h1, hinv, hc⟩ := Proofs.C10.uniqueDraw_first mk hmk a b0 hab
  obtain ⟨s', -, e2, -, e4⟩ := Proofs.C10.uniqueRun_ext mk hmk a reqs s1 [v] b0 hinv hc (extReqs_iff.1 hext)
  rw [← lastTop_eq] at e4
  have hv : values (uniqueRun mk none ((a, b0) :: reqs)).2 = [v] ++ values (uniqueRun mk (some s1) reqs).2 := by
    simp only [uniqueRun, h1]
    rw [Proofs.C12.values_cons]; rfl
  rw [hv] at hlen ⊢
  have := Proofs.C10.inv2_full a s' _ e2 (by rw [e4]; exact hlen)
  rw [e4] at this
  exact this

/-! ### `parent:` — the per-parent state rule of `get_contextual_state` -/

/-- The state is re-created exactly when there is none yet or the stored parent differs. -/
theorem getState_fresh_iff {P σ : Type} [DecidableEq P] (c : Option (Option P × σ)) (p : Option P)
    (fresh : σ) : (getState c p fresh).2.2 = true ↔ (c = none ∨ ∃ q v, c = some (q, v) ∧ q ≠ p) := by
  cases c with
  | none => simp [getState]
  | some qv =>
    obtain ⟨q, v⟩ := qv
    by_cases h : q = p <;> simp [getState, h]

/-- … and otherwise the stored state is returned unchanged. -/
theorem getState_reuse {P σ : Type} [DecidableEq P] (p : Option P) (v fresh : σ) :
    getState (some (p, v)) p fresh = (some (p, v), v, false) := by
  simp [getState]

/-- First call: fresh; afterwards: fresh iff the parent differs from the previous call's. -/
def changes {P : Type} [DecidableEq P] : Option (Option P) → List (Option P) → List Bool
  | _, [] => []
  | prev, p :: ps => decide (prev ≠ some p) :: changes (some p) ps

theorem ctxRun_spec {P : Type} [DecidableEq P] (c : Option (Option P × Unit)) (ps : List (Option P)) :
    ctxRun c ps = changes (c.map (·.1)) ps := by
  induction ps generalizing c with
  | nil => rfl
  | cons p ps ih =>
    cases c with
    | none => simp [ctxRun, changes, getState, ih]
    | some qv =>
      obtain ⟨q, v⟩ := qv
      by_cases h : q = p <;> simp [ctxRun, changes, getState, h, ih]

/-- While the parent row stays the same, the call site keeps using one `RandomReferenceContext`. -/
theorem uniqueRunP_same_parent {P : Type} [DecidableEq P] (mk : Mk) (p : Option P)
    (u : Option RandRange.St) (reqs : List (Int × Int)) :
    uniqueRunP mk (some (p, u)) (reqs.map (fun r => (p, r.1, r.2))) = (uniqueRun mk u reqs).2 := by
  induction reqs generalizing u with
  | nil => rfl
  | cons r reqs ih =>
    obtain ⟨a, b⟩ := r
    simp only [List.map_cons, uniqueRunP, uniqueRun, getState_reuse]
    rw [ih]

/-- When the parent row changes (or on first use) the context starts from scratch. -/
theorem uniqueRunP_new_parent {P : Type} [DecidableEq P] (mk : Mk)
    (c : Option (Option P × Option RandRange.St)) (p : Option P)
    (hc : c = none ∨ ∃ q u, c = some (q, u) ∧ q ≠ p) (a b : Int) (reqs : List (Int × Int)) :
    uniqueRunP mk c ((p, a, b) :: reqs.map (fun r => (p, r.1, r.2)))
      = (uniqueRun mk none ((a, b) :: reqs)).2 := by
  have hg : (getState c p (none : Option RandRange.St)).2.1 = none := by
    rcases hc with rfl | ⟨q, u, rfl, hne⟩
    · rfl
    · simp [getState, hne]
  simp only [uniqueRunP, uniqueRun, hg]
  rw [uniqueRunP_same_parent]

/-- **unique per parent**: the targets handed out for one parent row are pairwise distinct. -/
theorem unique_per_parent_no_repeat {P : Type} [DecidableEq P] (mk : Mk) (hmk : C12.GoodMk mk)
    (c : Option (Option P × Option RandRange.St)) (p : Option P)
    (hc : c = none ∨ ∃ q u, c = some (q, u) ∧ q ≠ p) (a b : Int) (reqs : List (Int × Int)) :
    (values (uniqueRunP mk c ((p, a, b) :: reqs.map (fun r => (p, r.1, r.2))))).Nodup := by
  rw [uniqueRunP_new_parent mk c p hc]
  exact unique_no_repeat mk hmk _

/-! ### history tables are decided statically -/

/-- Every name used by a `random_reference` gets a history table for the table it denotes. -/
theorem history_tables_static (names : List (Name × Name)) (refs : List Name) (n : Name)
    (h : n ∈ refs) : (names.lookup n).getD n ∈ historyTables names refs := by
  unfold historyTables
  rw [List.mem_eraseDups]
  exact List.mem_map.2 ⟨n, h, rfl⟩

/-- A row is remembered whenever its table is history-backed. -/
theorem shouldSave_of_table (hist : List Name) (t : Name) (nk : Option Name) (h : t ∈ hist) :
    shouldSave hist t nk = true := by
  simp [shouldSave, h]

/-! ### which just_once rows a continued run re-saves (fix 5da9efa) -/

/-- **Every persistent row known by a nickname** whose table is history-backed is re-saved, under
    that nickname. -/
theorem resave_covers_nicknamed (pn : List (Name × Name × Nat)) (pt : List (Name × Nat))
    (hist : List Name) (n t : Name) (i : Nat) (h : (n, t, i) ∈ pn) (ht : t ∈ hist) :
    (t, some n, i) ∈ resaveRows pn pt hist :=
  Proofs.C10.mem_resaveRows.2 ⟨ht, Or.inl ⟨n, rfl, h⟩⟩

/-- **Every persistent row known by its table name** whose table is history-backed is re-saved —
    as a plain row, or already under its nickname when the *same* `(table, id)` is a nicknamed
    persistent row.  (Before the fix a nicknamed row of *any* table with the same bare id
    suppressed it: C05's finding D48.) -/
theorem resave_covers_by_table (pn : List (Name × Name × Nat)) (pt : List (Name × Nat))
    (hist : List Name) (t : Name) (i : Nat) (h : (t, i) ∈ pt) (ht : t ∈ hist) :
    ∃ nk, (t, nk, i) ∈ resaveRows pn pt hist := by
  by_cases hn : ∃ n, (n, t, i) ∈ pn
  · obtain ⟨n, hn⟩ := hn
    exact ⟨some n, resave_covers_nicknamed pn pt hist n t i hn ht⟩
  · exact ⟨none, Proofs.C10.mem_resaveRows.2 ⟨ht, Or.inr ⟨rfl, h, fun n hm => hn ⟨n, hm⟩⟩⟩⟩

/-- Nothing else is re-saved: only persistent rows of history-backed tables. -/
theorem resave_only_persistent (pn : List (Name × Name × Nat)) (pt : List (Name × Nat))
    (hist : List Name) (x : Name × Option Name × Nat) (h : x ∈ resaveRows pn pt hist) :
    x.1 ∈ hist ∧ ((∃ n, x.2.1 = some n ∧ (n, x.1, x.2.2) ∈ pn) ∨ (x.2.1 = none ∧ (x.1, x.2.2) ∈ pt)) := by
  obtain ⟨h1, h2⟩ := Proofs.C10.mem_resaveRows.1 h
  exact ⟨h1, h2.imp id (fun h => ⟨h.1, h.2.1⟩)⟩

/-- **Exactly once**: when the nicknamed persistent rows are distinct rows (one nickname per row)
    and `persistent_objects_by_table` is a dict, no `(table, id)` is re-saved twice. -/
theorem resave_exactly_once (pn : List (Name × Name × Nat)) (pt : List (Name × Nat)) (hist : List Name)
    (hpn : (pn.map (fun x => (x.2.1, x.2.2))).Nodup) (hpt : pt.Nodup) :
    ((resaveRows pn pt hist).map (fun x => (x.1, x.2.2))).Nodup :=
  Proofs.C10.resaveRows_pairs_nodup pn pt hist hpn hpt

/-- **The re-save cannot fail**: on the freshly initialised history of a continued run, saving the
    selected rows hits neither sqlite error (`no such table`, duplicate id). -/
theorem resave_succeeds (counters : List (Name × Nat)) (tables : List Name) (nickmap : List (Name × Name))
    (pn : List (Name × Name × Nat)) (pt : List (Name × Nat))
    (hpn : (pn.map (fun x => (x.2.1, x.2.2))).Nodup) (hpt : pt.Nodup) :
    ∃ s o, step (init counters tables nickmap) (.resave (resaveRows pn pt tables)) = .ok (s, o) := by
  obtain ⟨s', hs'⟩ := Proofs.C10.saveAll_succeeds (resaveRows pn pt tables) (init counters tables nickmap)
    (fun x hx => (resave_only_persistent pn pt tables x hx).1)
    (Proofs.C10.resaveRows_pairs_nodup pn pt tables hpn hpt) (by simp [init])
  exact ⟨resetLocals s', .ok, by simp [step, hs']⟩

/-! ### non-vacuity -/

example : ContiguousSaves (okOr d07Init (run d07Init [.resave [], .save "T" none 1, .save "T" (some "n") 2, .reset,
    .save "T" none 3])) "T" := by decide
example : ¬ ContiguousSaves (okOr d07Init (run d07Init d07Ops)) "T" := by decide
example : DenseTrace d07Init [.resave [], .save "T" none 1, .save "T" (some "n") 2, .reset, .save "T" none 3] := by
  decide
example : DenseTrace d41Init d41Ops := by decide
example : FreshTrace d07Init (d07Ops ++ [.save "T" (some "n") 1]) ∧ ¬ DenseTrace d07Init d07Ops := by decide
example : ∀ op ∈ d07Ops ++ [.save "T" (some "n") 1], WellNamedOp d07Init.nickToTable op := by decide
example : ∀ op ∈ d41Ops, WellNamedOp d41Init.nickToTable op := by decide
/-- the D07 scenario after the fix: the late save of the reserved row leaves the counter at 3 -/
example : (okOr d07Init (run d07Init (d07Ops ++ [.save "T" (some "n") 1]))).tableCtr "T" = 3 := by decide
/-- … and the next iteration's range starts above it: `[4, 6]` (4 is the id reserved ahead: D07) -/
example : pickRange (okOr d07Init (run d07Init (d07Ops ++ [.save "T" (some "n") 1, .reset,
    .save "T" none 5, .save "T" none 6]))) "T" .current = .ok { nick := none, table := "T", lo := 4, hi := 6 } := by
  decide
/-- the D41 scenario after the fix: only the row of the running iteration is eligible -/
example : pickRange (okOr d41Init (run d41Init d41Ops)) "n" .current
    = .ok { nick := some "n", table := "T", lo := 2, hi := 2 } := by decide
example : pick (okOr d41Init (run d41Init d41Ops)) "n" .current 2 = .ok ("T", 4) := by decide
example : pick (okOr d07Init (run d07Init [.save "T" none 1, .save "T" (some "n") 2, .reset,
    .save "T" (some "n") 3])) "n" .current 2 = .ok ("T", 3) := by decide
/-- the D48 scenario: `J(1)` known by nickname `j`, `Q(1)` known by its table name — both re-saved -/
example : resaveRows [("j", "J", 1)] [("J", 1), ("Q", 1), ("Z", 1)] ["J", "Q"]
    = [("J", some "j", 1), ("Q", none, 1)] := by decide
example : DenseTrace d57Init d57Ops := by decide
example : pickRange (okOr d57Init (run d57Init d57Ops)) "A" .current
    = .ok { nick := none, table := "A", lo := 1, hi := 1 } := by decide
example : (okOr d57Init (run d57Init d57Ops)).nickCtr "A" = 3 ∧
    (okOr d57Init (run d57Init d57Ops)).tableCtr "A" = 1 := by decide
example : ExtReqs 1 1 [(1, 2), (1, 2), (1, 4)] := by simp [ExtReqs]
example : CompatReqs 1 3 [(1, 3), (1, 5), (6, 8), (6, 9), (10, 10)] := by simp [CompatReqs]
example : changes none [some 1, some 1, some 2, none, none] = [true, false, true, true, false] := by decide

end SnowModel.Props.C10
