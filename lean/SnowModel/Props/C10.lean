/-
C10 — random_reference picks existing, correctly scoped targets; unique never repeats.
Property theorems only (helper lemmas: `SnowModel/Proofs/C10a.lean`, `C10b.lean`).

Model: `SnowModel/Core/History.lean` (`RowHistory`, `RandomReferenceContext.unique_random`,
`Interpreter.get_contextual_state`, `find_tables_to_keep_history_for`).  All theorems quantify over
arbitrary operation sequences / request sequences / states; draws are arbitrary within the range
handed to the randomizer.
-/
import SnowModel.Core.History
import SnowModel.Proofs.C10
import SnowModel.Props.C12

namespace SnowModel.Props.C10
open SnowModel.History
open SnowModel.RandRange (Mk Out values)

/-! ### vocabulary -/

/-- Naming discipline of one traced call relative to the nickname map `nm`
    (`nickname_to_tablename`): a table name is not a nickname, and a row saved under nickname `n`
    is a row of the table `nm` gives for `n`.  (Outside it: finding D02, C01/C02.) -/
abbrev WellNamedOp (nm : List (Name × Name)) (op : Op) : Prop := Proofs.C10.WellNamedOp nm op

/-- Ids are saved densely: an ordinary `save_row` of table `t` carries the next id of `t`
    (`max(table_counters[t], local_counters[t]) + 1`); a re-save after a continuation names an id
    of an earlier run and precedes the run's own rows of that table.  False exactly when an id of
    `t` is reserved ahead (forward reference to a nickname, D07) or rows of `t` nest. -/
abbrev DenseTrace (s : St) (ops : List Op) : Prop := Proofs.C10.DenseTrace s ops

/-- The row was saved by the running iteration: since the last `reset_locals`, and not by
    `resave_objects_from_continuation`. -/
def Current (s : St) (r : SRow) : Prop := r.since = s.epoch ∧ r.resaved = false

instance (s : St) (r : SRow) : Decidable (Current s r) := by unfold Current; infer_instance

/-- Row `(T, i)` exists: created by an earlier run (`i ≤ orig_used_ids[T]`) or saved in this one. -/
def Existing (s : St) (T : Name) (i : Nat) : Prop :=
  (1 ≤ i ∧ i ≤ s.prior T) ∨ ∃ r ∈ s.rows, r.table = T ∧ r.id = i

instance (s : St) (T : Name) (i : Nat) : Decidable (Existing s T i) := by unfold Existing; infer_instance

/-- The ids of `T` saved by the running iteration are exactly `(localCtr T, tableCtr T]`, and every
    id up to `tableCtr T` exists. -/
def ContiguousSaves (s : St) (T : Name) : Prop :=
  (∀ r ∈ s.rows, r.table = T → r.since = s.epoch → r.resaved = false →
      s.localCtr T < r.id ∧ r.id ≤ s.tableCtr T) ∧
  (∀ i, i ≤ s.tableCtr T → s.localCtr T < i →
      ∃ r ∈ s.rows, r.table = T ∧ r.id = i ∧ r.since = s.epoch ∧ r.resaved = false) ∧
  (∀ i, i ≤ s.tableCtr T → 1 ≤ i → Existing s T i)

instance (s : St) (T : Name) : Decidable (ContiguousSaves s T) := by
  unfold ContiguousSaves Existing; infer_instance

/-! ### the range handed to the randomizer -/

/-- `random_row_reference` never calls `randint(lo, hi)` with an empty or non-positive range. -/
theorem pick_range_wf (s : St) (name : Name) (sc : Scope) (pr : PickRange)
    (h : pickRange s name sc = .ok pr) : 1 ≤ pr.lo ∧ pr.lo ≤ pr.hi := by
  have key : ∀ (nick : Option Name) (table : Name) (M loc : Nat),
      (if sc = .other then (.error .badScope : Except Err PickRange)
        else if M = 0 then .error .noRows
        else .ok { nick := nick, table := table, lo := fallback (Proofs.C10.minIdOf sc loc) M, hi := M }) = .ok pr →
      1 ≤ pr.lo ∧ pr.lo ≤ pr.hi := by
    intro nick table M loc hk
    split_ifs at hk with h1 h2
    simp only [Except.ok.injEq] at hk
    subst hk
    have := Proofs.C10.minIdOf_ge_one sc loc
    simp only [fallback]
    split <;> omega
  cases hl : s.nickToTable.lookup name with
  | some T => rw [Proofs.C10.pickRange_nick s name T sc hl] at h; exact key _ _ _ _ h
  | none => rw [Proofs.C10.pickRange_table s name sc hl] at h; exact key _ _ _ _ h

/-! ### nickname scope -/

/-- **Nickname scope.**  After *any* successful op sequence that respects the naming discipline,
    `random_reference: n` (any scope, any draw in the range) returns a saved row that carries
    nickname `n`, lies in `n`'s table and has the drawn ordinal; with `current-iteration` scope it
    is a row saved since the last `reset_locals` whenever such a row of `n` exists (otherwise an
    earlier one: the whole-table fallback). -/
theorem rr_nickname_scope (counters : List (Name × Nat)) (tables : List Name)
    (nickmap : List (Name × Name)) (ops : List Op) (s : St)
    (hrun : run (init counters tables nickmap) ops = .ok s)
    (hwn : ∀ op ∈ ops, WellNamedOp (init counters tables nickmap).nickToTable op)
    (n T : Name) (hn : s.nickToTable.lookup n = some T) (h0 : ctrOf counters n = 0)
    (sc : Scope) (pr : PickRange) (hpr : pickRange s n sc = .ok pr)
    (draw : Nat) (hlo : pr.lo ≤ draw) (hhi : draw ≤ pr.hi) :
    ∃ r ∈ s.rows, pick s n sc draw = .ok (T, r.id) ∧ r.table = T ∧ r.nick = some n ∧
      r.ord = some draw ∧
      (sc = .current → (∃ r' ∈ s.rows, r'.nick = some n ∧ r'.since = s.epoch) → r.since = s.epoch) := by
  obtain ⟨hi, hnm⟩ := Proofs.C10.run_invariant' (init counters tables nickmap).nickToTable
    (fun s => s.nickToTable.lookup n = some T → Proofs.C10.NickInv s n T)
    (fun s op s1 o hnm hp hw hs hl => by
      have hl' : s.nickToTable.lookup n = some T := by rw [hnm, ← (Proofs.C10.step_frame hs).1.trans hnm]; exact hl
      exact Proofs.C10.nickInv_step _ n T (by rw [← hnm]; exact hl') s op s1 o hnm (hp hl') hw hs)
    ops _ s rfl (fun _ => Proofs.C10.nickInv_init counters tables nickmap n T h0) hwn hrun
  have hi := hi hn
  -- unfold the range computation
  have hwf := pick_range_wf s n sc pr hpr
  have hpr' := hpr
  rw [Proofs.C10.pickRange_nick s n T sc hn] at hpr
  split_ifs at hpr with h1 h2
  simp only [Except.ok.injEq] at hpr
  subst hpr
  simp only at hlo hhi hwf
  obtain ⟨r0, hr0, hr0n, hr0o⟩ := hi.ex draw (by omega) hhi
  have hr0t := hi.tbl r0 hr0 hr0n
  -- the lookup finds a row with these three attributes
  have hfind : ∃ r ∈ s.rows, findRow s T n draw = some r.id ∧ r.table = T ∧ r.nick = some n ∧ r.ord = some draw := by
    unfold findRow
    cases hf : s.rows.find? (fun r => decide (r.table = T ∧ r.nick = some n ∧ r.ord = some draw)) with
    | none =>
      exfalso
      have := List.find?_eq_none.1 hf r0 hr0
      simp [hr0t, hr0n, hr0o] at this
    | some r =>
      have hp := List.find?_some hf
      simp only [decide_eq_true_eq] at hp
      exact ⟨r, List.mem_of_find?_eq_some hf, rfl, hp⟩
  obtain ⟨r, hr, hfr, hrt, hrn, hro⟩ := hfind
  refine ⟨r, hr, ?_, hrt, hrn, hro, ?_⟩
  · simp only [pick, hpr', resolve, hfr]
  · intro hsc ⟨r', hr', hr'n, hr's⟩
    subst hsc
    obtain ⟨k', hk1, hk2, hk3⟩ := hi.ordle r' hr' hr'n
    have hk4 := (hi.win r' hr' hr'n k' hk1).1 hr's
    refine (hi.win r hr hrn draw hro).2 ?_
    rw [Proofs.C10.fallback_current] at hlo
    split_ifs at hlo <;> omega

/-- The iteration reading of the previous theorem: "a row created in the current iteration if one
    with that nickname exists".  FULL STATEMENT (refuted below, D23): as `rr_nickname_scope` with
    `Current s ·` in place of `·.since = s.epoch`. -/
def NicknameIterationScope : Prop :=
  ∀ (counters : List (Name × Nat)) (tables : List Name) (nickmap : List (Name × Name))
    (ops : List Op) (s : St),
    run (init counters tables nickmap) ops = .ok s →
    (∀ op ∈ ops, WellNamedOp (init counters tables nickmap).nickToTable op) →
    ∀ (n T : Name), s.nickToTable.lookup n = some T → ctrOf counters n = 0 →
    ∀ (pr : PickRange), pickRange s n .current = .ok pr →
    ∀ (draw : Nat), pr.lo ≤ draw → draw ≤ pr.hi →
    ∀ r ∈ s.rows, pick s n .current draw = .ok (T, r.id) → r.table = T →
      (∃ r' ∈ s.rows, r'.nick = some n ∧ Current s r') → Current s r

/-- Helper for the refutation witnesses: the state a successful run ends in. -/
def okOr (d : St) : Except Err St → St
  | .ok s => s
  | .error _ => d

theorem eq_okOr {e : Except Err St} {s : St} (d : St) (h : e = .ok s) : s = okOr d e := by
  rw [h]; rfl

/-- D23 witness: a continued run (`orig_used_ids = {T: 3}`) re-saves the just_once row `T(1)` of
    nickname `n` *after* `reset_locals`; the iteration then creates `T(4)` under the same nickname. -/
def d23Init : St := init [("T", 3)] ["T"] [("n", "T"), ("T", "T")]
def d23Ops : List Op := [.save "T" (some "n") 1 true, .save "T" (some "n") 4 false]

/-- **Refuted on the real code (finding D23).**  In the first iteration of a continued run the
    re-saved just_once row counts as "current": `random_reference: n` with draw 1 returns `T(1)`,
    a row of an earlier run, although `T(4)` was created under `n` in the running iteration. -/
theorem rr_nickname_iteration_scope_refuted : ¬ NicknameIterationScope := by
  intro h
  have hrun : run d23Init d23Ops = .ok (okOr d23Init (run d23Init d23Ops)) := rfl
  have := h [("T", 3)] ["T"] [("n", "T"), ("T", "T")] d23Ops _ hrun (by decide) "n" "T" (by decide) (by decide)
    { nick := some "n", table := "T", lo := 1, hi := 2 } (by decide) 1 (by decide) (by decide)
    { table := "T", id := 1, nick := some "n", ord := some 1, since := 1, resaved := true } (by decide) (by decide) rfl
    ⟨{ table := "T", id := 4, nick := some "n", ord := some 2, since := 1, resaved := false }, by decide, rfl, by decide⟩
  exact absurd this.2 (by decide)

/-- **Partial (what holds).**  If no re-saved row of nickname `n` sits in the current window — i.e.
    `n` is not the nickname of a just_once template in the first iteration of a continued run — the
    iteration reading holds. -/
theorem rr_nickname_iteration_scope_partial (counters : List (Name × Nat)) (tables : List Name)
    (nickmap : List (Name × Name)) (ops : List Op) (s : St)
    (hrun : run (init counters tables nickmap) ops = .ok s)
    (hwn : ∀ op ∈ ops, WellNamedOp (init counters tables nickmap).nickToTable op)
    (n T : Name) (hn : s.nickToTable.lookup n = some T) (h0 : ctrOf counters n = 0)
    (hres : ∀ r ∈ s.rows, r.nick = some n → r.since = s.epoch → r.resaved = false)
    (pr : PickRange) (hpr : pickRange s n .current = .ok pr)
    (draw : Nat) (hlo : pr.lo ≤ draw) (hhi : draw ≤ pr.hi) :
    ∃ r ∈ s.rows, pick s n .current draw = .ok (T, r.id) ∧ r.table = T ∧ r.nick = some n ∧
      ((∃ r' ∈ s.rows, r'.nick = some n ∧ Current s r') → Current s r) := by
  obtain ⟨r, hr, h1, h2, h3, -, h5⟩ :=
    rr_nickname_scope counters tables nickmap ops s hrun hwn n T hn h0 .current pr hpr draw hlo hhi
  refine ⟨r, hr, h1, h2, h3, ?_⟩
  rintro ⟨r', hr', hr'n, hr'c⟩
  have := h5 rfl ⟨r', hr', hr'n, hr'c.1⟩
  exact ⟨this, hres r hr h3 this⟩

/-! ### table scope -/

/-- **Table scope, one step, any state** under the decidable hypothesis `ContiguousSaves`:
    the result is the drawn id, that row exists, and it was created by the running iteration
    whenever the iteration has created a row of the table (`current-iteration` scope). -/
theorem rr_table_scope_partial (s : St) (T : Name) (hT : s.nickToTable.lookup T = none)
    (hc : ContiguousSaves s T) (sc : Scope) (pr : PickRange) (hpr : pickRange s T sc = .ok pr)
    (draw : Nat) (hlo : pr.lo ≤ draw) (hhi : draw ≤ pr.hi) :
    pick s T sc draw = .ok (T, draw) ∧ Existing s T draw ∧
      (sc = .current → (∃ r' ∈ s.rows, r'.table = T ∧ Current s r') →
        ∃ r ∈ s.rows, r.table = T ∧ r.id = draw ∧ Current s r) := by
  have hwf := pick_range_wf s T sc pr hpr
  have hpr' := hpr
  rw [Proofs.C10.pickRange_table s T sc hT] at hpr
  split_ifs at hpr with h1 h2
  simp only [Except.ok.injEq] at hpr
  subst hpr
  simp only at hlo hhi hwf
  obtain ⟨hcur, hfill, hex⟩ := hc
  refine ⟨by simp only [pick, hpr', resolve], hex draw hhi (by omega), ?_⟩
  intro hsc ⟨r', hr', hr't, hr'c⟩
  subst hsc
  have := hcur r' hr' hr't hr'c.1 hr'c.2
  rw [Proofs.C10.fallback_current] at hlo
  obtain ⟨r, hr, e1, e2, e3, e4⟩ := hfill draw hhi (by split_ifs at hlo <;> omega)
  exact ⟨r, hr, e1, e2, e3, e4⟩

/-- **`ContiguousSaves` is an invariant of dense traces**: after any successful op sequence that
    respects the naming discipline and saves ids densely, it holds for every table. -/
theorem contiguous_of_dense (counters : List (Name × Nat)) (tables : List Name)
    (nickmap : List (Name × Name)) (ops : List Op) (s : St)
    (hrun : run (init counters tables nickmap) ops = .ok s)
    (hwn : ∀ op ∈ ops, WellNamedOp (init counters tables nickmap).nickToTable op)
    (hd : DenseTrace (init counters tables nickmap) ops)
    (T : Name) (hT : s.nickToTable.lookup T = none) : ContiguousSaves s T := by
  obtain ⟨hi, hnm⟩ := Proofs.C10.run_invariant (init counters tables nickmap).nickToTable
    (fun s => s.nickToTable.lookup T = none → Proofs.C10.TableInv s T)
    (fun s op s1 o hnm hp hw hdo hs hl => by
      have hl' : s.nickToTable.lookup T = none := by rw [hnm, ← (Proofs.C10.step_frame hs).1.trans hnm]; exact hl
      exact Proofs.C10.tableInv_step _ T (by rw [← hnm]; exact hl') s op s1 o hnm (hp hl') hw hdo hs)
    ops _ s rfl (fun _ => Proofs.C10.tableInv_init counters tables nickmap T) hwn hd hrun
  have hi := hi hT
  refine ⟨hi.cur, fun i h1 h2 => hi.fill i h2 h1, fun i h1 h2 => ?_⟩
  rcases hi.ex i h2 (by omega) with h | h
  · exact Or.inl ⟨h2, h⟩
  · exact Or.inr h

/-- **Table scope over arbitrary dense op sequences.** -/
theorem rr_table_scope_dense (counters : List (Name × Nat)) (tables : List Name)
    (nickmap : List (Name × Name)) (ops : List Op) (s : St)
    (hrun : run (init counters tables nickmap) ops = .ok s)
    (hwn : ∀ op ∈ ops, WellNamedOp (init counters tables nickmap).nickToTable op)
    (hd : DenseTrace (init counters tables nickmap) ops)
    (T : Name) (hT : s.nickToTable.lookup T = none)
    (sc : Scope) (pr : PickRange) (hpr : pickRange s T sc = .ok pr)
    (draw : Nat) (hlo : pr.lo ≤ draw) (hhi : draw ≤ pr.hi) :
    pick s T sc draw = .ok (T, draw) ∧ Existing s T draw ∧
      (sc = .current → (∃ r' ∈ s.rows, r'.table = T ∧ Current s r') →
        ∃ r ∈ s.rows, r.table = T ∧ r.id = draw ∧ Current s r) :=
  rr_table_scope_partial s T hT (contiguous_of_dense counters tables nickmap ops s hrun hwn hd T hT)
    sc pr hpr draw hlo hhi

/-- FULL STATEMENT (refuted below, D07): `rr_table_scope_dense` without `DenseTrace`. -/
def TableScopeFull : Prop :=
  ∀ (counters : List (Name × Nat)) (tables : List Name) (nickmap : List (Name × Name))
    (ops : List Op) (s : St),
    run (init counters tables nickmap) ops = .ok s →
    (∀ op ∈ ops, WellNamedOp (init counters tables nickmap).nickToTable op) →
    ∀ (T : Name), s.nickToTable.lookup T = none →
    ∀ (pr : PickRange), pickRange s T .current = .ok pr →
    ∀ (draw : Nat), pr.lo ≤ draw → draw ≤ pr.hi → Existing s T draw

/-- D07 witness: `A{fwd: reference n}` reserves `T(1)` for the nickname; the two plain `T` rows get
    ids 2 and 3; `P{r: random_reference T}` runs before `T(1)` is created. -/
def d07Init : St := init [] ["T"] [("n", "T"), ("T", "T"), ("A", "A"), ("P", "P")]
def d07Ops : List Op := [.save "T" none 2 false, .save "T" none 3 false]

/-- **Refuted on the real code (finding D07).**  With a forward-reserved id outstanding the range
    handed to the randomizer is `[1, 3]`; draw 1 returns `T(1)`, which does not exist yet. -/
theorem rr_table_scope_refuted : ¬ TableScopeFull := by
  intro h
  have hrun : run d07Init d07Ops = .ok (okOr d07Init (run d07Init d07Ops)) := rfl
  have := h [] ["T"] [("n", "T"), ("T", "T"), ("A", "A"), ("P", "P")] d07Ops _ hrun (by decide) "T" (by decide)
    { nick := none, table := "T", lo := 1, hi := 3 } (by decide) 1 (by decide) (by decide)
  revert this
  decide

/-- … and when the reserved row is finally saved, `table_counters[T]` moves *backwards* (3 → 1):
    in the next iteration the "current" range starts at 2 and reaches into the old iteration. -/
theorem rr_table_counter_moves_back :
    (okOr d07Init (run d07Init (d07Ops ++ [.save "T" (some "n") 1 false]))).tableCtr "T" = 1 ∧
    (okOr d07Init (run d07Init d07Ops)).tableCtr "T" = 3 ∧
    pickRange (okOr d07Init (run d07Init (d07Ops ++ [.save "T" (some "n") 1 false, .reset,
        .save "T" none 5 false, .save "T" none 6 false]))) "T" .current
      = .ok { nick := none, table := "T", lo := 2, hi := 6 } := by
  decide

/-! ### unique -/

/-- Requests that keep the minimum and never lower the top: what `unique_random` sees while the
    eligible range only grows (within an iteration; or the whole-table fallback). -/
def ExtReqs (a : Int) : Int → List (Int × Int) → Prop
  | _, [] => True
  | cur, (x, y) :: rest => x = a ∧ cur ≤ y ∧ ExtReqs a y rest

/-- The top of the last request (or `cur`). -/
def lastTop : Int → List (Int × Int) → Int
  | cur, [] => cur
  | _, (_, y) :: rest => lastTop y rest

theorem extReqs_iff {a cur : Int} {reqs : List (Int × Int)} :
    ExtReqs a cur reqs ↔ Proofs.C10.ExtReqsP a cur reqs := by
  induction reqs generalizing cur with
  | nil => simp [ExtReqs, Proofs.C10.ExtReqsP]
  | cons r reqs ih => obtain ⟨x, y⟩ := r; simp only [ExtReqs, Proofs.C10.ExtReqsP]; rw [ih]

theorem lastTop_eq (cur : Int) (reqs : List (Int × Int)) : lastTop cur reqs = Proofs.C10.lastTop cur reqs := by
  induction reqs generalizing cur with
  | nil => rfl
  | cons r reqs ih => obtain ⟨x, y⟩ := r; simp only [lastTop, Proofs.C10.lastTop]; exact ih y

/-- **unique ⇒ pairwise distinct**, for every sequence of requests (growing, moving to the next
    iteration's range, failing ones included) and every generator satisfying the C12 permutation
    theorem. -/
theorem unique_no_repeat (mk : Mk) (hmk : C12.GoodMk mk) (reqs : List (Int × Int)) :
    (values (uniqueRun mk none reqs).2).Nodup := by
  have := Proofs.C10.uniqueRun_inv1 mk hmk reqs none [] rfl
  rw [List.nil_append] at this
  exact Proofs.C10.uinv1_nodup this

/-- Every value returned for a request `(a, b)` lies in `[a, b]` — so a unique pick is a pick with
    a draw inside the range, and the scope theorems above apply to it. -/
theorem unique_in_range (mk : Mk) (hmk : C12.GoodMk mk) (pre : List (Int × Int)) (a b v : Int)
    (h : (uniqueDraw mk (uniqueRun mk none pre).1 a b).2 = .value v) : a ≤ v ∧ v ≤ b := by
  have := Proofs.C10.uniqueRun_inv1 mk hmk pre none [] rfl
  exact Proofs.C10.uniqueDraw_value_in_range mk hmk _ _ a b this v h

/-- A `unique` pick *is* a pick of the history machine with some draw in the range. -/
theorem uniquePick_is_pick (mk : Mk) (hmk : C12.GoodMk mk) (pre : List (Int × Int)) (s : St)
    (name : Name) (sc : Scope) (t : Name) (i : Nat)
    (h : (uniquePick mk s (uniqueRun mk none pre).1 name sc).2 = .picked t i) :
    ∃ pr draw, pickRange s name sc = .ok pr ∧ pr.lo ≤ draw ∧ draw ≤ pr.hi ∧
      pick s name sc draw = .ok (t, i) := by
  unfold uniquePick at h
  cases hpr : pickRange s name sc with
  | error e => rw [hpr] at h; cases h
  | ok pr =>
    rw [hpr] at h
    simp only at h
    cases hd : (uniqueDraw mk (uniqueRun mk none pre).1 pr.lo pr.hi).2 with
    | value v =>
      rw [hd] at h
      simp only at h
      have hb := unique_in_range mk hmk pre _ _ v hd
      refine ⟨pr, v.toNat, rfl, by omega, by omega, ?_⟩
      simp only [pick, hpr]
      cases hr : resolve s pr v.toNat with
      | error e => rw [hr] at h; cases h
      | ok p =>
        obtain ⟨t', i'⟩ := p
        rw [hr] at h
        simp only [UObs.picked.injEq] at h
        rw [h.1, h.2]
    | stop => rw [hd] at h; cases h
    | ok => rw [hd] at h; cases h
    | assertion => rw [hd] at h; cases h

/-- **Growth never fails** (the D06 layout `A count 5, friend B{a: random_reference{to: A,
    unique: true}}`): raising the top with the minimum unchanged never trips an assertion. -/
theorem unique_growth_never_fails (mk : Mk) (hmk : C12.GoodMk mk) (a b0 : Int) (hab : a ≤ b0)
    (reqs : List (Int × Int)) (hext : ExtReqs a b0 reqs) :
    Out.assertion ∉ (uniqueRun mk none ((a, b0) :: reqs)).2 := by
  obtain ⟨s1, v, h1, hinv, hc⟩ := Proofs.C10.uniqueDraw_first mk hmk a b0 hab
  obtain ⟨s', -, -, e3, -⟩ := Proofs.C10.uniqueRun_ext mk hmk a reqs s1 [v] b0 hinv hc (extReqs_iff.1 hext)
  simp only [uniqueRun, h1]
  rw [List.mem_cons, not_or]
  exact ⟨by simp, e3⟩

/-- **A unique pick succeeds iff an unused target is left**: after any growth-only history on the
    range starting at `a`, a request `(a, b)` returns a value when fewer values than `b + 1 - a`
    have been handed out, and reports exhaustion (`StopIteration` → "Cannot find an unused …")
    otherwise.  In particular: pickers = targets all succeed, pickers = targets + 1 fails. -/
theorem unique_succeeds_iff_unused_left (mk : Mk) (hmk : C12.GoodMk mk) (a b0 : Int) (hab : a ≤ b0)
    (reqs : List (Int × Int)) (hext : ExtReqs a b0 reqs) (b : Int) (hb : lastTop b0 reqs ≤ b) :
    ((values (uniqueRun mk none ((a, b0) :: reqs)).2).length < (b + 1 - a).toNat →
        ∃ v, (uniqueDraw mk (uniqueRun mk none ((a, b0) :: reqs)).1 a b).2 = .value v) ∧
    ((b + 1 - a).toNat ≤ (values (uniqueRun mk none ((a, b0) :: reqs)).2).length →
        (uniqueDraw mk (uniqueRun mk none ((a, b0) :: reqs)).1 a b).2 = .stop) := by
  obtain ⟨s1, v, h1, hinv, hc⟩ := Proofs.C10.uniqueDraw_first mk hmk a b0 hab
  obtain ⟨s', e1, e2, -, e4⟩ := Proofs.C10.uniqueRun_ext mk hmk a reqs s1 [v] b0 hinv hc (extReqs_iff.1 hext)
  rw [← lastTop_eq] at e4
  have hv : values (uniqueRun mk none ((a, b0) :: reqs)).2 = [v] ++ values (uniqueRun mk (some s1) reqs).2 := by
    simp only [uniqueRun, h1]
    rw [Proofs.C12.values_cons]; rfl
  have hst : (uniqueRun mk none ((a, b0) :: reqs)).1 = some s' := by
    simp only [uniqueRun, h1]; exact e1
  rw [hv, hst]
  obtain ⟨s'', -, -, hcase⟩ := Proofs.C10.uniqueDraw_ext mk hmk a b s' _ e2 (by omega)
  constructor
  · intro hl
    rcases hcase with ⟨-, w, hw, -⟩ | ⟨hge, -, -⟩
    · exact ⟨w, hw⟩
    · omega
  · intro hl
    rcases hcase with ⟨hlt, -, -, -⟩ | ⟨-, hs, -⟩
    · omega
    · exact hs

/-- **Every eligible target is used**: when as many values were handed out as the final range has
    members, they are exactly the range (each target once). -/
theorem unique_all_used (mk : Mk) (hmk : C12.GoodMk mk) (a b0 : Int) (hab : a ≤ b0)
    (reqs : List (Int × Int)) (hext : ExtReqs a b0 reqs)
    (hlen : (lastTop b0 reqs + 1 - a).toNat ≤ (values (uniqueRun mk none ((a, b0) :: reqs)).2).length) :
    (values (uniqueRun mk none ((a, b0) :: reqs)).2).Perm (C12.rangeInt a (lastTop b0 reqs + 1)) := by
  obtain ⟨s1, v, h1, hinv, hc⟩ := Proofs.C10.uniqueDraw_first mk hmk a b0 hab
  obtain ⟨s', -, e2, -, e4⟩ := Proofs.C10.uniqueRun_ext mk hmk a reqs s1 [v] b0 hinv hc (extReqs_iff.1 hext)
  rw [← lastTop_eq] at e4
  have hv : values (uniqueRun mk none ((a, b0) :: reqs)).2 = [v] ++ values (uniqueRun mk (some s1) reqs).2 := by
    simp only [uniqueRun, h1]
    rw [Proofs.C12.values_cons]; rfl
  rw [hv] at hlen ⊢
  have := Proofs.C10.inv2_full a s' _ e2 (by rw [e4]; exact hlen)
  rw [e4] at this
  exact this

/-! ### `parent:` — the per-parent state rule of `get_contextual_state` -/

/-- The state is re-created exactly when there is none yet or the stored parent differs. -/
theorem getState_fresh_iff {P σ : Type} [DecidableEq P] (c : Option (Option P × σ)) (p : Option P)
    (fresh : σ) : (getState c p fresh).2.2 = true ↔ (c = none ∨ ∃ q v, c = some (q, v) ∧ q ≠ p) := by
  cases c with
  | none => simp [getState]
  | some qv =>
    obtain ⟨q, v⟩ := qv
    by_cases h : q = p <;> simp [getState, h]

/-- … and otherwise the stored state is returned unchanged. -/
theorem getState_reuse {P σ : Type} [DecidableEq P] (p : Option P) (v fresh : σ) :
    getState (some (p, v)) p fresh = (some (p, v), v, false) := by
  simp [getState]

/-- First call: fresh; afterwards: fresh iff the parent differs from the previous call's. -/
def changes {P : Type} [DecidableEq P] : Option (Option P) → List (Option P) → List Bool
  | _, [] => []
  | prev, p :: ps => decide (prev ≠ some p) :: changes (some p) ps

theorem ctxRun_spec {P : Type} [DecidableEq P] (c : Option (Option P × Unit)) (ps : List (Option P)) :
    ctxRun c ps = changes (c.map (·.1)) ps := by
  induction ps generalizing c with
  | nil => rfl
  | cons p ps ih =>
    cases c with
    | none => simp [ctxRun, changes, getState, ih]
    | some qv =>
      obtain ⟨q, v⟩ := qv
      by_cases h : q = p <;> simp [ctxRun, changes, getState, h, ih]

/-- While the parent row stays the same, the call site keeps using one `RandomReferenceContext`. -/
theorem uniqueRunP_same_parent {P : Type} [DecidableEq P] (mk : Mk) (p : Option P)
    (u : Option RandRange.St) (reqs : List (Int × Int)) :
    uniqueRunP mk (some (p, u)) (reqs.map (fun r => (p, r.1, r.2))) = (uniqueRun mk u reqs).2 := by
  induction reqs generalizing u with
  | nil => rfl
  | cons r reqs ih =>
    obtain ⟨a, b⟩ := r
    simp only [List.map_cons, uniqueRunP, uniqueRun, getState_reuse]
    rw [ih]

/-- When the parent row changes (or on first use) the context starts from scratch. -/
theorem uniqueRunP_new_parent {P : Type} [DecidableEq P] (mk : Mk)
    (c : Option (Option P × Option RandRange.St)) (p : Option P)
    (hc : c = none ∨ ∃ q u, c = some (q, u) ∧ q ≠ p) (a b : Int) (reqs : List (Int × Int)) :
    uniqueRunP mk c ((p, a, b) :: reqs.map (fun r => (p, r.1, r.2)))
      = (uniqueRun mk none ((a, b) :: reqs)).2 := by
  have hg : (getState c p (none : Option RandRange.St)).2.1 = none := by
    rcases hc with rfl | ⟨q, u, rfl, hne⟩
    · rfl
    · simp [getState, hne]
  simp only [uniqueRunP, uniqueRun, hg]
  rw [uniqueRunP_same_parent]

/-- **unique per parent**: the targets handed out for one parent row are pairwise distinct. -/
theorem unique_per_parent_no_repeat {P : Type} [DecidableEq P] (mk : Mk) (hmk : C12.GoodMk mk)
    (c : Option (Option P × Option RandRange.St)) (p : Option P)
    (hc : c = none ∨ ∃ q u, c = some (q, u) ∧ q ≠ p) (a b : Int) (reqs : List (Int × Int)) :
    (values (uniqueRunP mk c ((p, a, b) :: reqs.map (fun r => (p, r.1, r.2))))).Nodup := by
  rw [uniqueRunP_new_parent mk c p hc]
  exact unique_no_repeat mk hmk _

/-! ### history tables are decided statically -/

/-- Every name used by a `random_reference` gets a history table for the table it denotes. -/
theorem history_tables_static (names : List (Name × Name)) (refs : List Name) (n : Name)
    (h : n ∈ refs) : (names.lookup n).getD n ∈ historyTables names refs := by
  unfold historyTables
  rw [List.mem_eraseDups]
  exact List.mem_map.2 ⟨n, h, rfl⟩

/-- A row is remembered whenever its table is history-backed. -/
theorem shouldSave_of_table (hist : List Name) (t : Name) (nk : Option Name) (h : t ∈ hist) :
    shouldSave hist t nk = true := by
  simp [shouldSave, h]

/-! ### non-vacuity -/

example : ContiguousSaves (okOr d07Init (run d07Init [.save "T" none 1 false, .save "T" (some "n") 2 false, .reset,
    .save "T" none 3 false])) "T" := by decide
example : ¬ ContiguousSaves (okOr d07Init (run d07Init d07Ops)) "T" := by decide
example : DenseTrace d07Init [.save "T" none 1 false, .save "T" (some "n") 2 false, .reset, .save "T" none 3 false] := by
  decide
example : ∀ op ∈ d07Ops ++ [.save "T" (some "n") 1 false], WellNamedOp d07Init.nickToTable op := by decide
example : pick (okOr d07Init (run d07Init [.save "T" none 1 false, .save "T" (some "n") 2 false, .reset,
    .save "T" (some "n") 3 false])) "n" .current 2 = .ok ("T", 3) := by decide
example : ExtReqs 1 1 [(1, 2), (1, 2), (1, 4)] := by simp [ExtReqs]
example : changes none [some 1, some 1, some 2, none, none] = [true, false, true, true, false] := by decide

end SnowModel.Props.C10
