/-
C18 — bridging lemmas: what is regenerated from `snowfakery/fakedata/fake_data_generator.py` on
every run (`Gen.FakeContact.*`) coincides with the hand-written model
(`SnowModel.FakeContact.*`) that the theorems of `Props/C18.lean` are about.  A change of a
constant, of the arithmetic, of the wiring or of one of the pinned statement skeletons changes the
generated file and the corresponding lemma stops type-checking.
-/
import SnowModel.Core.FakeContact
import SnowModel.Generated.FakeContact

namespace SnowModel.Props.C18Bridge
open SnowModel.FakeContact

/-! #### e-mail templates -/

theorem first_name_patterns : Gen.FakeContact.firstNamePatterns = firstNamePatterns := by decide
theorem first_name_separators : Gen.FakeContact.firstNameSeparators = firstNameSeparators := by decide
theorem year_patterns : Gen.FakeContact.yearPatterns = yearPatterns := by decide

/-- `f"{first_name}{first_name_separator}{{lastname}}{year}@{{domain}}"` is `mkTemplate` -/
theorem template_parts :
    Gen.FakeContact.templateParts =
      ["var:first_name", "var:first_name_separator", "lit:{lastname}", "var:year", "lit:@{domain}"] := by
  decide

/-- the comprehension binds (first_name, first_name_separator, year) over
    `product(first_name_patterns, first_name_separators, year_patterns)` — the nesting order of
    `emailTemplates` -/
theorem template_product :
    Gen.FakeContact.templateLoopVars = ["first_name", "first_name_separator", "year"] ∧
    Gen.FakeContact.templateProductArgs =
      ["first_name_patterns", "first_name_separators", "year_patterns"] := by decide

/-- the model's template list is the product of the *pinned* tuples assembled by the pinned f-string -/
theorem email_templates_from_pins :
    emailTemplates =
      Gen.FakeContact.firstNamePatterns.flatMap fun fnp =>
        Gen.FakeContact.firstNameSeparators.flatMap fun sep =>
          Gen.FakeContact.yearPatterns.map fun yp =>
            fnp ++ sep ++ "{lastname}".toList ++ yp ++ "@{domain}".toList := by decide

/-! #### `FakeNames.email` -/

theorem email_cond : Gen.FakeContact.emailCond = "matching and all(already_created)" := by decide
theorem email_if_skeleton : Gen.FakeContact.emailIfSkeleton = ["Assign", "Return"] := by decide
theorem email_template_choice :
    Gen.FakeContact.emailTemplateChoice = "random.choice(email_templates)" := by decide
/-- first name padded, last name as is, domain from `safe_domain_name()`, year a `randint` -/
theorem email_format_kwargs :
    Gen.FakeContact.emailFormatKwargs =
      ["firstname=already_created[0].ljust(2, '_')", "lastname=already_created[1]",
       "domain=self.f.safe_domain_name()",
       "year=str(random.randint(this_year - 80, this_year - 10))"] := by decide
theorem email_already_have :
    Gen.FakeContact.emailAlreadyHave = ["self._already_have(('firstname', 'lastname'))"] := by decide
theorem email_fallback : Gen.FakeContact.emailFallback = "self.f.ascii_safe_email()" := by decide
theorem email_defaults : Gen.FakeContact.emailDefaults = ["self", "matching", "|", "True"] := by decide

/-- the drawn year has at least four digits for every current year from 1080 on — the hypothesis
    `1000 ≤ year` of `email_shape` -/
theorem year_range (thisYear : Int) (h : 1080 ≤ thisYear) :
    1000 ≤ Gen.FakeContact.yearLo thisYear ∧
      Gen.FakeContact.yearLo thisYear ≤ Gen.FakeContact.yearHi thisYear := by
  simp only [Gen.FakeContact.yearLo, Gen.FakeContact.yearHi]
  omega

/-- `ljust(2, "_")` is `ljust2` -/
theorem ljust_eq (s : Str) :
    ljust2 s =
      s ++ List.replicate (Gen.FakeContact.ljustWidth.toNat - s.length) '_' ∧
      Gen.FakeContact.ljustFill = ['_'] := by
  constructor
  · rfl
  · rfl

/-! #### `FakeNames.user_name` -/

/-- `namepart_max_len = 80 - (len(domain) + 1)` -/
theorem namepart_max_len_eq (domainLen : Nat) :
    Gen.FakeContact.namepartMaxLen (domainLen : Int) = namepartMaxLen domainLen := by
  simp [Gen.FakeContact.namepartMaxLen, namepartMaxLen]

theorem user_domain : Gen.FakeContact.userDomain = "self.f.hostname()" := by decide
theorem user_already_have :
    Gen.FakeContact.userAlreadyHave = ["self._already_have(('firstname', 'lastname'))"] := by decide
theorem user_cond : Gen.FakeContact.userCond = "matching and all(already_created)" := by decide
/-- `f"{already_created[0]}.{already_created[1]}_{self.f.uuid4()}"` -/
theorem user_namepart_matching :
    Gen.FakeContact.userNamepartMatching =
      ["var:already_created[0]", "lit:.", "var:already_created[1]", "lit:_", "var:self.f.uuid4()"] := by
  decide
/-- `f"{self.f.first_name()}_{self.f.last_name()}_{self.f.uuid4()}"` -/
theorem user_namepart_fresh :
    Gen.FakeContact.userNamepartFresh =
      ["var:self.f.first_name()", "lit:_", "var:self.f.last_name()", "lit:_", "var:self.f.uuid4()"] := by
  decide
theorem user_slice : Gen.FakeContact.userSlice = "namepart[0:namepart_max_len]" := by decide
theorem user_return : Gen.FakeContact.userReturn = ["var:namepart", "lit:@", "var:domain"] := by decide
theorem user_skeleton :
    Gen.FakeContact.userSkeleton = ["Expr", "Assign", "Assign", "If", "Assign", "Assign", "Return"] := by
  decide

/-! #### `_already_have` and the sanitiser -/

theorem already_have_body :
    Gen.FakeContact.alreadyHaveBody =
      ["already_created = self.faker_context.local_vars()",
       "vals = [already_created.get(name) for name in names]",
       "vals = [replace_unicode_strings_with_None(val) for val in vals]", "return vals"] := by decide
theorem translate_body :
    Gen.FakeContact.translateBody =
      ["if chr(x).isalnum():\n    return x\nelse:\n    return None"] := by decide
theorem remove_weird_chars :
    Gen.FakeContact.removeWeirdChars = "{x: translate(x) for x in range(0, 128)}" := by decide
theorem sanitiser_body :
    Gen.FakeContact.sanitiserBody =
      ["if type(val) == str:\n    if not val.isascii():\n        return None\n    return val.translate(REMOVE_WEIRD_CHARS)",
       "return val"] := by decide

/-! #### attributes of `FakeNames`, the table, the lookup -/

def tagToTVal (tag : Str) : TVal :=
  if tag = "NotImplemented".toList then .notImpl
  else if tag = "email".toList then .impl .email
  else if tag = "user_name".toList then .impl .userName
  else .impl (.other tag)

/-- the class body (defs, aliases, `NotImplemented` markers, NamedTuple fields and the two
    inherited tuple methods) is what the model's `snowDir` says -/
theorem snow_attrs :
    Gen.FakeContact.snowAttrs.map (fun p => (p.1, tagToTVal p.2)) = snowDir := by decide
theorem fake_names_bases : Gen.FakeContact.fakeNamesBases = ["T.NamedTuple"] := by decide

theorem no_underscore_name :
    Gen.FakeContact.noUnderscoreName = ["return name.lower().replace('_', '')"] := by decide
theorem obj_to_func_list :
    Gen.FakeContact.objToFuncList =
      ["canonicalizer(name)", "getattr(obj, name)", "dir(obj)",
       "not name.startswith('_') and name not in ignore_list"] := by decide
/-- the four segments of `buildTable`, in this order (later wins) -/
theorem table_segments :
    Gen.FakeContact.tableSegments =
      ["obj_to_func_list(faker, str.lower, faker_class_attrs)",
       "obj_to_func_list(faker, no_underscore_name, faker_class_attrs)",
       "obj_to_func_list(fake_names, str.lower, set())",
       "obj_to_func_list(fake_names, no_underscore_name, set())"] := by decide
theorem faker_ctor :
    Gen.FakeContact.fakerCtor =
      ["Faker(locale, use_weighting=False)", "FakeNames(faker, faker_context)"] := by decide
theorem faker_class_attrs :
    Gen.FakeContact.fakerClassAttrs = "set(dir(Faker)).union(dir(Generator))" := by decide
/-- lower-case the spelling, `dict.get` with `NotImplemented` as default, **fall back to the key
    without underscores** (fix 6b5b124 — the second step of the model's `getFake`), call, remember
    under the key without underscores, return -/
theorem get_fake_data :
    Gen.FakeContact.getFakeData =
      ["local_faker_vars = self.faker_context.local_vars()", "name = origname.lower()",
       "meth = self.fake_names.get(name, NotImplemented)", "if meth == NotImplemented",
       "  meth = self.fake_names.get(name.replace('_', ''), NotImplemented)",
       "if meth != NotImplemented",
       "  ret = meth(*args, **kwargs)", "  local_faker_vars[name.replace('_', '')] = ret",
       "  return ret"] := by decide

end SnowModel.Props.C18Bridge
