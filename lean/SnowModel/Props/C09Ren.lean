/-
C09, second half — "hidden is a projection".  Over the L2 interpreter: a recipe with hidden (`__`)
names behaves exactly like its un-hidden twin `renRecipe ρ r`, in which `ρ` replaces names (hidden
ones by visible ones), except that the twin's output additionally shows the renamed tables and
fields: the original output is obtained from the twin's by renaming back (`σ`, the inverse of `ρ`)
and dropping the rows / fields whose original name is hidden (`project σ`).

Hypotheses (`GoodRen`):
* `Ren ρ σ`: `σ (ρ n) = n` for every name (so `ρ` is injective) and `ρ` fixes every name the
  interpreter treats specially (`specialNames`: the reserved names, the slot attributes, the private
  row attributes, `id`, `count`, `child_index`, `this`, and the empty string used as a default).
* `OkStmts ρ r.v3 all r.statements`, a condition on the syntax of `r`:
  - every table and field name `n` satisfies `VisOK ρ n`: `ρ` does not hide a visible name;
  - every attribute name `f` (in `e.f` or in the tail of a `reference` path) satisfies `AttrOK ρ f`:
    `ρ` does not turn it into a dunder / underscore / `yaml…` name (these are the prefix tests the
    interpreter applies to attributes of rows and slots);
  - the safety condition `fdSafe`, only relevant in the v3 dialect: a field that the twin writes but
    the original does not (hidden key or hidden table; in mode `all = true`: any field) is not
    defined by a template consisting of one bare name (mode `all = false`: nor of one bare attribute
    access).  Such a template can store a forward-reference slot that nobody has asked for an id;
    writing it (as only the twin does) allocates the id — see `hidden_is_projection_refuted`.
Both runs are compared up to "outside" (a run that leaves the modelled fragment says nothing).
-/
import SnowModel.Proofs.L2Ren9

namespace SnowModel.Props.C09
open SnowModel.L2

/-- **Hidden is a projection (whole chains).**  For every fuel, chain and `finalSave`: unless one
    of the two runs leaves the modelled fragment, the twin has the same status as the original, and
    the original's output is the twin's output renamed back with the originally hidden rows and
    fields dropped (same visible rows, same order, same ids and values, reference targets renamed
    back; rows created inside hidden fields or as friends of hidden tables are still there).
    Full statement without the `fdSafe` part of `GoodRen`: false, see `hidden_is_projection_refuted`. -/
theorem hidden_is_projection_partial (ρ σ : String → String) (all : Bool) (r : Recipe)
    (hg : GoodRen ρ σ all r) (fuel : Nat) (parts : List Nat) (finalSave : Bool) :
    (∃ m, (runChain fuel r parts finalSave).status = "outside:" ++ m) ∨
    (∃ m, (runChain fuel (renRecipe ρ r) parts finalSave).status = "outside:" ++ m) ∨
    ((runChain fuel (renRecipe ρ r) parts finalSave).status = (runChain fuel r parts finalSave).status ∧
      (runChain fuel r parts finalSave).out =
        project σ (runChain fuel (renRecipe ρ r) parts finalSave).out) :=
  runChain_ren hg.ren all fuel r hg.ok parts finalSave

/-- In the v2 dialect the safety condition is void: the name conditions alone suffice. -/
theorem hidden_is_projection_v2 (ρ σ : String → String) (r : Recipe) (hv : r.v3 = false)
    (hren : Ren ρ σ) (hok : OkStmts ρ false false r.statements)
    (fuel : Nat) (parts : List Nat) (finalSave : Bool) :
    (∃ m, (runChain fuel r parts finalSave).status = "outside:" ++ m) ∨
    (∃ m, (runChain fuel (renRecipe ρ r) parts finalSave).status = "outside:" ++ m) ∨
    ((runChain fuel (renRecipe ρ r) parts finalSave).status = (runChain fuel r parts finalSave).status ∧
      (runChain fuel r parts finalSave).out =
        project σ (runChain fuel (renRecipe ρ r) parts finalSave).out) :=
  runChain_ren hren false fuel r (by rw [hv]; exact hok) parts finalSave

/-- **The whole state, not only the output**: unless a run leaves the fragment, both chains fail
    alike or end in states `s1` and `renSt ρ o1 s1` — every table of the twin's final state (ids,
    slots, name bindings, all rows with *all* their fields, hidden ones included) is the renamed
    image of the original's: hidden things are computed identically, the twin merely shows them. -/
theorem hidden_twin_state_partial (ρ σ : String → String) (all : Bool) (r : Recipe)
    (hg : GoodRen ρ σ all r) (fuel : Nat) (parts : List Nat) (finalSave : Bool) :
    RRc ρ σ (chain fuel r finalSave parts false (initSt r))
      (chain fuel (renRecipe ρ r) finalSave parts false (initSt (renRecipe ρ r))) := by
  rw [initSt_ren hg.ren]
  exact chain_ren hg.ren r.v3 all fuel r hg.ok finalSave parts false (initSt r) [] rfl
    (initSt_rowsOK r) rfl

/-- **One template** (the simulation step itself): in any state satisfying the invariant, running a
    template of the renamed recipe in the renamed state simulates the original run. -/
theorem hidden_template_partial (ρ σ : String → String) (v3 all : Bool) (hren : Ren ρ σ)
    (fuel : Nat) (c : Ctx) (t : Template) (s : St) (o : List OutRow)
    (hok : OkT ρ v3 all t) (hv : s.v3 = v3) (hr : RowsOK ρ all s) (ho : s.out = project σ o) :
    RRm ρ σ id (execTemplate fuel c t s) (execTemplate fuel (renCtx ρ c) (renT ρ t) (renSt ρ o s)) :=
  (simAll hren v3 all fuel).2.1 c t s o hok hv hr ho

/-- **The unrestricted statement is false.**  The name conditions alone (`OkStmts ρ false false`
    switches the safety condition off) do not suffice in the v3 dialect: in `cexRen` the hidden
    field `__x: ${{B}}` stores the forward-reference slot of table `B`, which has no rows; the
    original never asks that slot for an id and succeeds, the twin writes the field `x`, thereby
    allocates an id for `B` that is never used, and fails with "reference not fulfilled". -/
theorem hidden_is_projection_refuted :
    ¬ (∀ (ρ σ : String → String) (r : Recipe) (fuel : Nat) (parts : List Nat) (finalSave : Bool),
        Ren ρ σ → OkStmts ρ false false r.statements →
        (∃ m, (runChain fuel r parts finalSave).status = "outside:" ++ m) ∨
        (∃ m, (runChain fuel (renRecipe ρ r) parts finalSave).status = "outside:" ++ m) ∨
        ((runChain fuel (renRecipe ρ r) parts finalSave).status =
            (runChain fuel r parts finalSave).status ∧
          (runChain fuel r parts finalSave).out =
            project σ (runChain fuel (renRecipe ρ r) parts finalSave).out)) := by
  intro H
  have h1 : (runChain 50 cexRen [1] true).status = "ok" := by decide +kernel
  have h2 : (runChain 50 (renRecipe swapρ cexRen) [1] true).status = "recipe_error" := by decide +kernel
  rcases H swapρ swapρ cexRen 50 [1] true swapρ_ren cexRen_names with ⟨m, hm⟩ | ⟨m, hm⟩ | ⟨hs, -⟩
  · rw [h1] at hm
    have := not_outside_of_short hm
    revert this; decide +kernel
  · rw [h2] at hm
    have := not_outside_of_short hm
    revert this
    intro h8
    have : "recipe_error" ≠ "outside:" ++ m := by
      intro e
      have := congrArg (fun s => s.toList.take 1) e
      simp at this
    exact this hm
  · rw [h1, h2] at hs
    revert hs; decide +kernel

/-- **Why "unless the original leaves the fragment"**: `exSlotAttr` satisfies all hypotheses, but
    its run is outside (the attribute `__x` of a *slot* is an underscore name, which the model does
    not cover), while the twin reads the plain attribute `x` of the slot (undefined) and fails. -/
theorem orig_outside_example :
    GoodRen swapρ swapρ false exSlotAttr ∧
    (runChain 50 exSlotAttr [1] true).status = "outside:attribute of slot" ∧
    (runChain 50 (renRecipe swapρ exSlotAttr) [1] true).status = "recipe_error" := by
  refine ⟨⟨swapρ_ren, exSlotAttr_ok⟩, ?_, ?_⟩ <;> decide +kernel

/-- **Why "unless the twin leaves the fragment"**: `exRowId` satisfies all hypotheses and runs
    fine, but its twin has to write the un-hidden field `x`, a reference to a row whose `id` was
    overwritten by a string, which the model does not cover. -/
theorem twin_outside_example :
    GoodRen swapρ swapρ false exRowId ∧
    (runChain 50 exRowId [1] true).status = "ok" ∧
    (runChain 50 (renRecipe swapρ exRowId) [1] true).status = "outside:row id" := by
  refine ⟨⟨swapρ_ren, exRowId_ok⟩, ?_, ?_⟩ <;> decide +kernel

/-- **Non-vacuity.**  The hypotheses are satisfiable: the permutation `swapρ` (`__H ↔ H`,
    `__x ↔ x`) is a good renaming for `demoRen`, a recipe with a hidden table, and a hidden field
    that a visible field reads. -/
theorem demo_goodRen : GoodRen swapρ swapρ true demoRen := ⟨swapρ_ren, demoRen_ok⟩

/-- The instance of the theorem for `demoRen`: both runs succeed, the twin's output shows the table
    `H` and the field `x`, and projecting it gives the original's output. -/
theorem demo_projection :
    (runChain 200 demoRen [1, 1] true).status = "ok" ∧
    (runChain 200 (renRecipe swapρ demoRen) [1, 1] true).status = "ok" ∧
    (runChain 200 demoRen [1, 1] true).out =
      project swapρ (runChain 200 (renRecipe swapρ demoRen) [1, 1] true).out := by
  have h1 : (runChain 200 demoRen [1, 1] true).status = "ok" := by decide +kernel
  have h2 : (runChain 200 (renRecipe swapρ demoRen) [1, 1] true).status = "ok" := by decide +kernel
  refine ⟨h1, h2, ?_⟩
  rcases hidden_is_projection_partial swapρ swapρ true demoRen demo_goodRen 200 [1, 1] true with
    ⟨m, hm⟩ | ⟨m, hm⟩ | ⟨-, ho⟩
  · rw [h1] at hm
    have := not_outside_of_short hm
    revert this; decide +kernel
  · rw [h2] at hm
    have := not_outside_of_short hm
    revert this; decide +kernel
  · exact ho

/-- what the twin of `demoRen` writes in one iteration: the un-hidden table `H` and field `x` -/
theorem demo_twin_output :
    (runChain 200 (renRecipe swapρ demoRen) [1] true).out =
      [⟨"H", [("id", .int 1), ("v", .int 5)]⟩, ⟨"K", [("id", .int 1)]⟩,
       ⟨"A", [("id", .int 1), ("x", .int 5), ("y", .int 6), ("r", .ref "H" 1)]⟩] ∧
    (runChain 200 demoRen [1] true).out =
      [⟨"K", [("id", .int 1)]⟩, ⟨"A", [("id", .int 1), ("y", .int 6), ("r", .ref "__H" 1)]⟩] := by
  constructor <;> decide +kernel

end SnowModel.Props.C09
