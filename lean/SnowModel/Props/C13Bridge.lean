/-
C13 — bridging lemmas: the constants, expressions and wiring tables regenerated from
`scrambled_numbers.py`, `UniqueId.py` and `template_funcs.py` on every run (`Gen.*`, Python `int`
semantics) coincide with the hand-written model `SnowModel.Uid` that `Props/C13.lean` is about.
A change in the source changes a generated file and one of these lemmas stops type-checking.
-/
import SnowModel.Core.Uid
import SnowModel.Generated.ScrambledNumbers
import SnowModel.Generated.UniqueId
import SnowModel.Generated.UniqueIdBuiltins
import SnowModel.Generated.PluginContinuation

namespace SnowModel.Props.C13Bridge
open SnowModel.Uid

/-! #### scrambled_numbers.py -/

theorem shift1_eq : Gen.ScrambledNumbers.SHIFT1 = (SHIFT1 : Nat) := rfl
theorem shift2_eq : Gen.ScrambledNumbers.SHIFT2 = (SHIFT2 : Nat) := rfl
theorem shift3_eq : Gen.ScrambledNumbers.SHIFT3 = (SHIFT3 : Nat) := rfl

/-- `UniqueNumericIdGenerator.unique_id` calls `scramble_number(int(val))`: the default applies -/
theorem default_minbits : Gen.ScrambledNumbers.defaultMinbits = 10 := rfl

theorem assertMinbits_eq (b : Nat) :
    Gen.ScrambledNumbers.assertMinbits b = !decide (b < 10) := by
  simp only [Gen.ScrambledNumbers.assertMinbits]
  by_cases h : b < 10 <;> simp [h] <;> omega

theorem assertNumbits_eq (nb : Nat) :
    Gen.ScrambledNumbers.assertNumbits nb = decide (nb < SHIFT2) := by
  simp only [Gen.ScrambledNumbers.assertNumbits, shift2_eq]
  by_cases h : nb < SHIFT2 <;> simp [h]

theorem effMinbits_eq (b : Nat) : Gen.ScrambledNumbers.effMinbits b = (effMinbits b : Nat) := by
  simp only [Gen.ScrambledNumbers.effMinbits, effMinbits]
  omega

theorem key_eq (n : Nat) : Gen.ScrambledNumbers.key n = ((n % SHIFT1 : Nat) : Int) := by
  simp only [Gen.ScrambledNumbers.key, shift1_eq]
  rw [Int.fmod_eq_emod_of_nonneg _ (by simp [SHIFT1])]
  norm_cast

theorem numberDiv_eq (n : Nat) : Gen.ScrambledNumbers.numberDiv n = ((n / SHIFT1 : Nat) : Int) := by
  simp only [Gen.ScrambledNumbers.numberDiv, shift1_eq]
  rw [Int.fdiv_eq_ediv_of_nonneg _ (by simp [SHIFT1])]
  norm_cast

/-- the pinned `numbits` expression, fed with the already reduced `minbits` and `number`, is the
    model's `numbitsOf` -/
theorem numbits_eq (lg : Nat → Nat) (number minbits : Nat) :
    Gen.ScrambledNumbers.numbits (fun x => (lg x.toNat : Nat)) (effMinbits minbits : Nat) ((number / SHIFT1 : Nat) : Int)
      = (numbitsOf lg number minbits : Nat) := by
  simp only [Gen.ScrambledNumbers.numbits, numbitsOf]
  by_cases h : number / SHIFT1 = 0
  · simp [h]
  · have h' : ((number / SHIFT1 : Nat) : Int) ≠ 0 := by exact_mod_cast h
    simp only [h', ne_eq, not_false_eq_true, if_true, h, Int.toNat_natCast]
    omega

theorem scrambled_eq (n m : Nat) : Gen.ScrambledNumbers.scrambled n m = ((n ^^^ m : Nat) : Int) := by
  simp [Gen.ScrambledNumbers.scrambled, Gen.ScrambledNumbers.pyXor]

theorem result_eq (s k nb : Nat) :
    Gen.ScrambledNumbers.result s k nb = ((s * SHIFT3 + k * SHIFT2 + nb : Nat) : Int) := by
  simp only [Gen.ScrambledNumbers.result, shift2_eq, shift3_eq]
  norm_cast

/-- statement order: assert, reduce minbits, take the key *before* dropping the last digit,
    compute numbits, assert, fetch the mask for (key, numbits), xor, combine -/
theorem scramble_skeleton :
    Gen.ScrambledNumbers.scrambleSkeleton =
      ["assert minbits >= 10", "minbits", "key", "number", "numbits", "assert numbits < SHIFT2",
       "mask", "scrambled", "return"] := rfl
theorem mask_call : Gen.ScrambledNumbers.maskCall = "mask_for_key(key, numbits)" := rfl

/-- the mask is computed from a *copy* of the cached `Random(key)`, i.e. it is a function of
    (key, numbits) and not of the call history -/
theorem mask_is_pure :
    Gen.ScrambledNumbers.maskForKey =
      ["key,numbits", "lru_cache()", "r = copy(randomizer(key))", "return r.getrandbits(numbits)"] ∧
    Gen.ScrambledNumbers.randomizer = ["key", "lru_cache()", "return Random(key)"] := ⟨rfl, rfl⟩

/-- `unscramble_number`, expression by expression, is the model's `unscramble` -/
theorem unscramble_eq (mask : Nat → Nat → Nat) (v : Nat) :
    let numbits := Gen.ScrambledNumbers.unNumbits v
    let n1 := Gen.ScrambledNumbers.unStep1 v numbits
    let key := Gen.ScrambledNumbers.unKey n1
    let n2 := Gen.ScrambledNumbers.unStep2 n1 key
    let scr := Gen.ScrambledNumbers.unScrambled n2
    let un := Gen.ScrambledNumbers.unUnscrambled scr (mask key.toNat numbits.toNat : Nat)
    Gen.ScrambledNumbers.unResult un key = (unscramble mask v : Nat) := by
  simp only [Gen.ScrambledNumbers.unNumbits, Gen.ScrambledNumbers.unStep1, Gen.ScrambledNumbers.unKey,
    Gen.ScrambledNumbers.unStep2, Gen.ScrambledNumbers.unScrambled, Gen.ScrambledNumbers.unUnscrambled,
    Gen.ScrambledNumbers.unResult, Gen.ScrambledNumbers.pyXor, shift1_eq, shift2_eq, shift3_eq, unscramble]
  have s1 : SHIFT1 = 10 := rfl
  have s2 : SHIFT2 = 1000 := rfl
  have s3 : SHIFT3 = 10000 := rfl
  rw [s1, s2, s3]
  have e1 : Int.fmod (v : Int) ((1000 : Nat) : Int) = ((v % 1000 : Nat) : Int) := by
    rw [Int.fmod_eq_emod_of_nonneg _ (by omega)]; norm_cast
  rw [e1]
  have e2 : (v : Int) - ((v % 1000 : Nat) : Int) = ((v - v % 1000 : Nat) : Int) := by
    have := Nat.mod_le v 1000; omega
  rw [e2]
  have e3 : Int.tdiv (Int.fmod ((v - v % 1000 : Nat) : Int) ((10000 : Nat) : Int)) ((1000 : Nat) : Int)
      = (((v - v % 1000) % 10000 / 1000 : Nat) : Int) := by
    rw [Int.fmod_eq_emod_of_nonneg _ (by omega), Int.tdiv_eq_ediv_of_nonneg (by omega)]
    omega
  rw [e3]
  have e4 : ((v - v % 1000 : Nat) : Int) - (((v - v % 1000) % 10000 / 1000 : Nat) : Int) * ((1000 : Nat) : Int)
      = ((v - v % 1000 - (v - v % 1000) % 10000 / 1000 * 1000 : Nat) : Int) := by
    have : (v - v % 1000) % 10000 / 1000 * 1000 ≤ v - v % 1000 := by omega
    omega
  rw [e4]
  rw [Int.fdiv_eq_ediv_of_nonneg _ (by omega)]
  norm_cast

theorem un_mask_call : Gen.ScrambledNumbers.unMaskCall = "mask_for_key(key, numbits)" := rfl

/-! #### UniqueId.py -/

theorem oct_body : Gen.UniqueId.octBody = ["return oct(number)[2:]"] := rfl
theorem numeric_start : Gen.UniqueId.numericStart = (numericStart : Nat) := rfl
theorem alpha_start : Gen.UniqueId.alphaStart = (alphaStart : Nat) := rfl
/-- the process-wide counter is a class attribute `count(1)` -/
theorem first_context : Gen.UniqueId.firstContext = 1 := rfl
theorem numeric_randomize_default : Gen.UniqueId.numericRandomizeDefault = true := rfl
/-- the generator inside an AlphaUniquifier is *not* randomised and starts at 1001 -/
theorem alpha_inner :
    Gen.UniqueId.alphaInnerRandomize = false ∧
    Gen.UniqueId.alphaInnerArgs = ["parts=parts", "pid=pid", "randomize=False", "start=1001"] := ⟨rfl, rfl⟩
theorem alpha_min_chars_default :
    Gen.UniqueId.alphaMinCharsDefault = (defaultMinChars : Nat) ∧
    Gen.UniqueId.alphaFactoryMinChars = (defaultMinChars : Nat) := ⟨rfl, rfl⟩

/-- context number first, then the counter; the parts are split on ",", stripped, lower-cased,
    converted, and joined with "9" -/
theorem numeric_init :
    Gen.UniqueId.numericInit =
      ["self.unique_identifer = next(self.context_uniqifier)", "self.counter = count(start)",
       "self.start = start", "self.parts = parts", "self.pid = self._get_pid(pid)",
       "parts = [self._convert(part.strip().lower()) for part in parts.split(',')]",
       "self.number_template = '9'.join(parts)", "self.min_chars = min_chars", "self.result = {}",
       "self.randomize = randomize"] := rfl

/-- the dispatch of `_convert`, in the order the model's `convertPart` tests -/
theorem convert_chain :
    Gen.UniqueId.convertChain =
      ["isinstance(part, str) => part = part.lower()", "part == 'pid' => return self.pid",
       "part.isnumeric() or isinstance(part, int) => return _oct(int(part))",
       "part == 'index' => return '{index:o}'",
       "part == 'context' => return _oct(self.unique_identifer)",
       "else => raise exc.DataGenValueError(f'Unknown input to eval: {part}')"] := rfl

/-- an int pid is one octal component; otherwise two components (seconds since 2021, os pid)
    joined by the separator -/
theorem get_pid :
    Gen.UniqueId.getPidReturns =
      ["_oct(int(time.time() - time.mktime((2021, 1, 1, 0, 0, 0, 0, 0, 0)))) + '9' + _oct(os.getpid())",
       "_oct(pid)"] := rfl

theorem numeric_unique_id :
    Gen.UniqueId.numericUniqueId =
      ["index = next(self.counter)", "val = self.number_template.format(index=index)",
       "if self.randomize: ;     return scramble_number(int(val)) ; else: ;     return int(val)"] := rfl

theorem alpha_init :
    Gen.UniqueId.alphaInit =
      ["self.randomize_codes = randomize_codes", "if randomize_codes: ;     min_chars = max(min_chars, 4)",
       "self.number_generator = UniqueNumericIdGenerator(pid=pid, parts=parts, start=1001, randomize=False)",
       "self.alphabet = alphabet or string.digits + string.ascii_uppercase",
       "self.alpha_encoder = BaseConverter(self.alphabet).encode", "self.min_chars = min_chars",
       "self.result = {}"] := rfl

theorem effMinChars_eq (a : AlphaCfg) :
    ((effMinChars a : Nat) : Int) =
      if a.randomize then Gen.UniqueId.effMinCharsRandomized a.minChars else (a.minChars : Int) := by
  simp only [effMinChars, Gen.UniqueId.effMinCharsRandomized]
  split <;> omega

theorem randomize_number :
    Gen.UniqueId.randomizeNumber =
      ["bits_per_char = int(log(len(self.alphabet), 2))", "min_bits = int(self.min_chars) * bits_per_char",
       "return scramble_number(int(number), min_bits)"] := rfl

theorem minBits_eq (a : AlphaCfg) :
    Gen.UniqueId.minBits (effMinChars a : Nat) (bitsPerChar a : Nat) = (minBits a : Nat) := by
  simp only [Gen.UniqueId.minBits, minBits]
  norm_cast

theorem alpha_unique_id :
    Gen.UniqueId.alphaUniqueId =
      ["next_number = int(self.number_generator.unique_id)",
       "if self.randomize_codes: ;     next_number = self._randomize_number(next_number)",
       "return self.alpha_encoder(next_number).rjust(self.min_chars, self.alphabet[0])"] := rfl

/-- default templates per mode -/
theorem default_templates :
    Gen.UniqueId.bigIdsTest = "self._bigids" ∧
    Gen.UniqueId.numericBig = defaultNumericTemplate true ∧
    Gen.UniqueId.numericSmall = defaultNumericTemplate false ∧
    Gen.UniqueId.alphaBig = defaultAlphaTemplate true ∧
    Gen.UniqueId.alphaSmall = defaultAlphaTemplate false := ⟨rfl, rfl, rfl, rfl, rfl⟩

theorem factories :
    Gen.UniqueId.numericFactory =
      ["template = template or ('pid,context,index' if self._bigids else 'context,index')",
       "return UniqueNumericIdGenerator(pid=self._pid, parts=template)"] ∧
    Gen.UniqueId.alphaFactory =
      ["alphabet = str(alphabet) if isinstance(alphabet, int) else alphabet",
       "template = template or ('pid,context,index' if self._bigids else 'index')",
       "return AlphaUniquifier(pid=self._pid, parts=template, alphabet=alphabet, min_chars=min_chars, randomize_codes=randomize_codes)"] :=
  ⟨rfl, rfl⟩

/-- the default generators are created once per `Functions` object and then reused -/
theorem default_generators_cached :
    Gen.UniqueId.defaultuniqifierBody =
      ["if not self._default_unique_id_generator: ;     self._default_unique_id_generator = self.NumericIdGenerator()",
       "return self._default_unique_id_generator"] ∧
    Gen.UniqueId.defaultalphacodegeneratorBody =
      ["if not self._default_unique_alpha_code_generator: ;     self._default_unique_alpha_code_generator = self.AlphaCodeGenerator()",
       "return self._default_unique_alpha_code_generator"] ∧
    Gen.UniqueId.uniqueidBody = ["return self.default_uniqifier.unique_id"] := ⟨rfl, rfl, rfl⟩

/-! #### template_funcs.py: the builtins `unique_id` / `unique_alpha_code` -/

theorem builtins_wiring :
    Gen.UniqueIdBuiltins.uniqueidgeneratorBody =
      ["if not self._uidgen: ;     self._uidgen = UniqueId(self.context.interpreter).custom_functions()",
       "return self._uidgen"] ∧
    Gen.UniqueIdBuiltins.uniqueidBody = ["return self._unique_id_generator.default_uniqifier.unique_id"] ∧
    Gen.UniqueIdBuiltins.uniquealphacodeBody =
      ["return self._unique_id_generator.default_alpha_code_generator.unique_id"] ∧
    Gen.UniqueIdBuiltins.registrations =
      ["self.unique_id = StringGenerator(self._unique_id)",
       "self.unique_alpha_code = StringGenerator(self._unique_alpha_code)"] := ⟨rfl, rfl, rfl, rfl⟩

/-! #### continuation: `__reduce__` / `_from_continuation` (model: `reduceGen`, `Op.restore`) -/

/-- the constructor has no way to be handed a context number: the parameters a continuation
    file can pass are exactly these -/
theorem numeric_init_params :
    Gen.UniqueId.numericInitParams =
      ["self", "parts=", "pid=None", "min_chars=None", "randomize=True", "start=1"] := rfl

/-- `__reduce__` persists the template, `min_chars`, `randomize` and the *original* `start` —
    not the pid, not the context number, not the position of the counter (`reduceGen`) -/
theorem numeric_reduce :
    Gen.UniqueId.numericReduceState =
      ["'parts': self.parts", "'min_chars': self.min_chars", "'randomize': self.randomize", "'start': self.start"] ∧
    Gen.UniqueId.numericReduce =
      ["state = {'parts': self.parts, 'min_chars': self.min_chars, 'randomize': self.randomize, 'start': self.start}",
       "return (self.__class__, (state,))"] := ⟨rfl, rfl⟩

/-- `AlphaUniquifier` inherits `PluginResult.__reduce__` (`reduceGen … = none`) -/
theorem alpha_has_no_reduce :
    Gen.UniqueId.alphaOwnMethods = ["__init__", "_randomize_number", "unique_id"] ∧
    Gen.PluginContinuation.reduceBody = ["return (self.__class__, (dict(self.result),))"] := ⟨rfl, rfl⟩

/-- restoring is an ordinary constructor call with the persisted keywords (`Op.restore`) -/
theorem from_continuation :
    Gen.PluginContinuation.fromContinuation = ["cls,args", "classmethod", "return cls(**args)"] ∧
    Gen.PluginContinuation.initSubclass = ["super().__init_subclass__(**kwargs)", "_register_for_continuation(cls)"] ∧
    Gen.PluginContinuation.register =
      ["SnowfakeryDumper.add_representer(cls, Representer.represent_object)",
       "yaml.SafeLoader.add_constructor(f'tag:yaml.org,2002:python/object/apply:{cls.__module__}.{cls.__name__}', lambda loader, node: cls._from_continuation(loader.construct_mapping(node.value[0])))"] :=
  ⟨rfl, rfl, rfl⟩

end SnowModel.Props.C13Bridge
