/-
C10 — bridging lemmas: definitions regenerated on every run from the ASTs of
`snowfakery/row_history.py` (`Gen.RowHistory.*`) and of `data_generator_runtime.py`,
`template_funcs.py`, `plugins.py`, `data_generator_runtime_object_model.py`
(`Gen.HistoryWiring.*`) coincide with what the hand-written model `SnowModel.History` assumes.
Arithmetic and comparisons are related to the model's functions; statement skeletons are compared
verbatim (the model comment next to each says which model clause mirrors it).  A source change
alters the generated file and the corresponding lemma stops type-checking.
-/
import SnowModel.Core.History
import SnowModel.Generated.RowHistory
import SnowModel.Generated.HistoryWiring

namespace SnowModel.Props.C10Bridge
open SnowModel.History

/-! #### arithmetic of `random_row_reference` -/

/-- `min_id = self.local_nickname_counters.get(nickname, 0) + 1` is `minIdLocal` -/
theorem minIdNick_eq (loc : Nat) : Gen.RowHistory.minIdNick loc = (minIdLocal loc : Nat) := by
  simp [Gen.RowHistory.minIdNick, minIdLocal]
/-- `min_id = self.local_counters.get(tablename, 0) + 1` is `minIdLocal` -/
theorem minIdTable_eq (loc : Nat) : Gen.RowHistory.minIdTable loc = (minIdLocal loc : Nat) := by
  simp [Gen.RowHistory.minIdTable, minIdLocal]
/-- the nickname branch reads `local_nickname_counters[nickname]` (`St.localNick`, fix 07a822a), the
    table branch `local_counters[tablename]` (`St.localCtr`) -/
theorem minId_sources :
    Gen.RowHistory.minIdNickSrc = ["self.local_nickname_counters", "nickname"] ∧
    Gen.RowHistory.minIdTableSrc = ["self.local_counters", "tablename"] := ⟨rfl, rfl⟩
/-- global scope starts at 1 -/
theorem minIdGlobal_eq : Gen.RowHistory.minIdGlobal = 1 := rfl
/-- `if max_id < min_id: min_id = 1` is `fallback` -/
theorem fallback_eq (minId maxId : Nat) :
    (if Gen.RowHistory.fallbackCond maxId minId then Gen.RowHistory.fallbackValue else (minId : Int))
      = (fallback minId maxId : Nat) := by
  simp only [Gen.RowHistory.fallbackCond, Gen.RowHistory.fallbackValue, fallback]
  by_cases h : maxId < minId <;> simp [h]
/-- `save_row` keeps the maximum (fix 9826fcb): `max(row_id, table_counters.get(tablename) or 0)` is
    `saveTableCtr`, read from `table_counters[tablename]` -/
theorem saveTableCtr_eq (i cur : Nat) :
    Gen.RowHistory.saveTableCtr i cur = (saveTableCtr i cur : Nat) := by
  simp only [Gen.RowHistory.saveTableCtr, saveTableCtr]
  omega
theorem saveTableCtr_source :
    Gen.RowHistory.saveTableCtrSrc = ["self.table_counters", "tablename"] := rfl
/-- `unique_random`: `b += 1` (top-inclusive → top-exclusive) is the `b + 1` of `uniqueDraw` -/
theorem uniqueTop_eq (b : Int) : Gen.RowHistory.uniqueTop b = b + 1 := rfl

/-! #### statement skeletons (verbatim) -/

/-- accepted values of `scope` -/
theorem rowHistory_scopes : Gen.RowHistory.scopes =
  ["prior-and-current-iterations", "current-iteration"] := rfl
/-- is `name` a nickname? -/
theorem rowHistory_nameTest : Gen.RowHistory.nameTest =
  ["name in self.nickname_to_tablename"] := rfl
/-- nickname branch -/
theorem rowHistory_nickBranch : Gen.RowHistory.nickBranch =
  ["nickname = name", "tablename = self.nickname_to_tablename[nickname]", "max_id = self.nickname_counters[nickname]"] := rfl
/-- table branch -/
theorem rowHistory_tableBranch : Gen.RowHistory.tableBranch =
  ["nickname = None", "tablename = name", "max_id = self.table_counters.get(tablename)"] := rfl
/-- when `There is no table or nickname` is raised -/
theorem rowHistory_noRowsTest : Gen.RowHistory.noRowsTest =
  ["not max_id"] := rfl
/-- tests of the min_id chain -/
theorem rowHistory_minIdTests : Gen.RowHistory.minIdTests =
  ["scope == 'prior-and-current-iterations'", "nickname"] := rfl
/-- nickname or table lookup -/
theorem rowHistory_resultTest : Gen.RowHistory.resultTest =
  ["nickname"] := rfl
/-- nickname result -/
theorem rowHistory_resultNick : Gen.RowHistory.resultNick =
  ["nickname_id = randomizer_func(min_id, max_id)", "row_id = self.find_row_id_for_nickname_id(tablename, nickname, nickname_id)"] := rfl
/-- table result -/
theorem rowHistory_resultTable : Gen.RowHistory.resultTable =
  ["row_id = randomizer_func(min_id, max_id)"] := rfl
/-- return statement -/
theorem rowHistory_resultReturn : Gen.RowHistory.resultReturn =
  ["return LazyLoadedObjectReference(tablename, row_id, tablename)"] := rfl
/-- `save_row` statements -/
theorem rowHistory_saveRowBody : Gen.RowHistory.saveRowBody =
  ["row_id = row['id']", "self.table_counters[tablename] = max(row_id, self.table_counters.get(tablename) or 0)", "if nickname:\n    nickname_id = self._get_nickname_id(tablename, nickname)\nelse:\n    nickname_id = None", "data = self.pickler.dumps(row)", "self.conn.execute(f'INSERT INTO \"{tablename}\" VALUES (?, ?, ?, ?)', (row_id, nickname, nickname_id, data))"] := rfl
/-- `_get_nickname_id` statements -/
theorem rowHistory_getNicknameIdBody : Gen.RowHistory.getNicknameIdBody =
  ["self.nickname_counters[nickname] += 1", "return self.nickname_counters[nickname]"] := rfl
/-- `reset_locals` statements -/
theorem rowHistory_resetLocalsBody : Gen.RowHistory.resetLocalsBody =
  ["self.local_counters = deepcopy(self.table_counters)", "self.local_nickname_counters = dict(self.nickname_counters)"] := rfl
/-- `RowHistory.__init__` statements -/
theorem rowHistory_initBody : Gen.RowHistory.initBody =
  ["self.conn = sqlite3.connect('')", "self.table_counters = dict(table_counters)", "self.nickname_counters = defaultdict(int)", "self.reset_locals()", "self.nickname_to_tablename = {nick: table for nick, table in tablename_for_nickname.items() if table != nick}", "for table in tables_to_keep_history_for:\n    _make_history_table(self.conn, table)", "self.pickler = RestrictedPickler(_DISPATCH_TABLE, _SAFE_CLASSES)"] := rfl
/-- `find_row_id_for_nickname_id` statements -/
theorem rowHistory_findRowBody : Gen.RowHistory.findRowBody =
  ["qr = self.conn.execute(f'SELECT id FROM \"{tablename}\" WHERE nickname=? AND nickname_id=?', (nickname, nickname_id))", "first_row = next(qr, None)", "assert first_row, f'Something went wrong: we cannot find {tablename}: {nickname} : {nickname_id}'", "return first_row[0]"] := rfl
/-- `_make_history_table` statements -/
theorem rowHistory_makeHistoryTableBody : Gen.RowHistory.makeHistoryTableBody =
  ["c = conn.cursor()", "c.execute(f'CREATE TABLE \"{tablename}\" (id INTEGER NOT NULL UNIQUE, nickname VARCHAR, nickname_id INTEGER, data VARCHAR NOT NULL)')", "c.execute(f'CREATE UNIQUE INDEX \"{tablename}_nickname_id\" ON \"{tablename}\" (nickname, nickname_id);')"] := rfl
/-- `RandomReferenceContext.__init__` statements -/
theorem rowHistory_ctxInitBody : Gen.RowHistory.ctxInitBody =
  ["self.row_history = row_history", "self.to = to", "self.scope = scope", "self.unique = unique", "if unique:\n    self.random_func = self.unique_random\nelse:\n    self.random_func = randint"] := rfl
/-- class attributes -/
theorem rowHistory_ctxClassAttrs : Gen.RowHistory.ctxClassAttrs =
  ["rng = None"] := rfl
/-- `RandomReferenceContext.next` statements -/
theorem rowHistory_ctxNextBody : Gen.RowHistory.ctxNextBody =
  ["try:\n    return self.row_history.random_row_reference(self.to, self.scope, self.random_func)\nexcept StopIteration as e:\n    if self.random_func == self.unique_random:\n        raise exc.DataGenError(f'Cannot find an unused `{self.to}`` to link to') from e\n    else:\n        raise e"] := rfl
/-- `unique_random` statements -/
theorem rowHistory_uniqueRandomBody : Gen.RowHistory.uniqueRandomBody =
  ["b += 1", "if self.rng is None:\n    self.rng = UpdatableRandomRange(a, b)\nelse:\n    self.rng.set_new_range(a, b)", "return next(self.rng)"] := rfl
/-- `Interpreter.get_contextual_state` statements -/
theorem historyWiring_contextualStateBody : Gen.HistoryWiring.contextualStateBody =
  ["assert not reset_every_iteration", "current_context = self.current_context", "uniq_name = name or current_context.unique_context_identifier", "if parent:\n    parent_obj = current_context.field_vars().get(parent)\nelse:\n    parent_obj = None", "current_parent, value = self.instance_states.get(uniq_name, (None, None))", "if current_parent != parent_obj or value is None:\n    value = make_state_func()\n    self.instance_states[uniq_name] = [parent_obj, value]", "return value"] := rfl
/-- when the state is (re-)created -/
theorem historyWiring_freshTest : Gen.HistoryWiring.freshTest =
  ["current_parent != parent_obj or value is None"] := rfl
/-- `find_tables_to_keep_history_for` statements -/
theorem historyWiring_findTablesBody : Gen.HistoryWiring.findTablesBody =
  ["random_references = parse_result.random_references", "referenced_names = set((get_referent_name(random_reference) for random_reference in random_references))", "referenced_tables = set((nicknames_and_tables.get(name, name) for name in referenced_names))", "return referenced_tables"] := rfl
/-- `get_referent_name` statements -/
theorem historyWiring_referentNameBody : Gen.HistoryWiring.referentNameBody =
  ["args, kwargs = (random_reference.args, random_reference.kwargs)", "assert not (args and kwargs)", "target = args[0] if args else kwargs.get('to')", "ret = getattr(target, 'definition', None)", "if not isinstance(ret, str):\n    raise DataGenSyntaxError(f'random_reference should only refer to a name, not {ret}')", "return ret"] := rfl
/-- `RuntimeContext.remember_row` statements -/
theorem historyWiring_rememberRowBody : Gen.HistoryWiring.rememberRowBody =
  ["for fieldname, fieldvalue in row.items():\n    if isinstance(fieldvalue, (ObjectRow, ObjectReference)):\n        self.interpreter.globals.register_intertable_reference(tablename, fieldvalue._tablename, fieldname)", "history_tables = self.interpreter.tables_to_keep_history_for", "should_save: bool = tablename in history_tables or nickname in history_tables or SAVE_EVERYTHING", "if should_save:\n    self.interpreter.row_history.save_row(tablename, nickname, row)"] := rfl
/-- `resave_objects_from_continuation` statements -/
theorem historyWiring_resaveBody : Gen.HistoryWiring.resaveBody =
  ["relevant_objs = [(obj._tablename, nickname, obj) for nickname, obj in globals.persistent_nicknames.items()]", "already_saved = set(((obj._tablename, obj._id) for _, _, obj in relevant_objs))", "relevant_objs.extend(((tablename, None, obj) for tablename, obj in globals.persistent_objects_by_table.items() if (tablename, obj._id) not in already_saved))", "relevant_objs = ((table, nick, obj) for table, nick, obj in relevant_objs if table in tables_to_keep_history_for)", "for tablename, nickname, obj in relevant_objs:\n    self.row_history.save_row(tablename, nickname, obj._values)", "self.row_history.reset_locals()"] := rfl
/-- re-save de-duplication (fix 5da9efa): per nicknamed row the key `(obj._tablename, obj._id)` is remembered; a row known by its table name is added as `(tablename, None, obj)` iff `(tablename, obj._id)` is not among those keys — `History.resaveRows` (`already`, `byTable`) -/
theorem historyWiring_resaveDedup : Gen.HistoryWiring.resaveDedup =
  ["(obj._tablename, obj._id)", "relevant_objs", "(tablename, None, obj)", "globals.persistent_objects_by_table.items()", "(tablename, obj._id) not in already_saved"] := rfl
/-- history-related statements of `Interpreter.__init__`, in order -/
theorem historyWiring_interpreterInitHistory : Gen.HistoryWiring.interpreterInitHistory =
  ["self.tables_to_keep_history_for = find_tables_to_keep_history_for(parse_result, globals.nicknames_and_tables)", "self.row_history = RowHistory(globals.transients.orig_used_ids, self.tables_to_keep_history_for, self.globals.nicknames_and_tables)", "self.resave_objects_from_continuation(globals, self.tables_to_keep_history_for)"] := rfl
/-- iteration loop body, in order -/
theorem historyWiring_loopBody : Gen.HistoryWiring.loopBody =
  ["self.loop_over_templates_once(self.statements, continuing)", "finished = self.current_context.check_if_finished()", "self.iteration_count += 1", "continuing = True", "self.globals.reset_slots()", "self.row_history.reset_locals()"] := rfl
/-- decorators of `random_reference` -/
theorem historyWiring_randomReferenceDecorators : Gen.HistoryWiring.randomReferenceDecorators =
  ["memorable"] := rfl
/-- signature of `random_reference` -/
theorem historyWiring_randomReferenceSignature : Gen.HistoryWiring.randomReferenceSignature =
  ["self, to: str, *, parent: str=None, scope: str='current-iteration', unique: bool=False"] := rfl
/-- `random_reference` statements -/
theorem historyWiring_randomReferenceBody : Gen.HistoryWiring.randomReferenceBody =
  ["return RandomReferenceContext(self.context.interpreter.row_history, to, scope, unique)"] := rfl
/-- `evaluate_memorable_function` statements -/
theorem historyWiring_memorableBody : Gen.HistoryWiring.memorableBody =
  ["if context.interpreter.current_context.recalculate_every_time:\n    return func(self, *args, **kwargs)", "user_key = kwargs.get('name') or (context.unique_context_identifier, tuple(args), tuple(kwargs.items()))", "key = (func.__module__, func.__name__, user_key)", "return context.interpreter.get_contextual_state(name=key, parent=kwargs.get('parent', None), reset_every_iteration=False, make_state_func=lambda: func(self, *args, **kwargs))"] := rfl
/-- `ObjectTemplate._generate_row` statements -/
theorem historyWiring_generateRowBody : Gen.HistoryWiring.generateRowBody =
  ["id = context.generate_id(self.nickname)", "row = {'id': id}", "if self.update_key:\n    row['_sf_update_key'] = self.update_key", "sobj = ObjectRow(self.tablename, row, index)", "context.register_object(sobj, self.nickname, self.just_once)", "self._generate_fields(context, row)", "context.remember_row(self.tablename, self.nickname, row)", "with self.exception_handling('Cannot write row'):\n    if not self.tablename.startswith('__'):\n        output_stream.write_row(self.tablename, context.filter_row_values(row))", "context.interpreter.loop_over_templates_once(self.friends, True)", "return sobj"] := rfl
/-- **The state key of a `random_reference` call site is the identity of the parsed object**
    (`str(id(self))`, installed by `render`), not its source position: two templates that receive the
    same field text (macro, YAML alias / merge key, included file) are parsed into two objects and
    therefore keep two `RandomReferenceContext`s — the hypothesis under which `uniqueRun` (one
    request sequence per call site) and `unique_per_parent_no_repeat` describe a picker field.
    (C17 pins the same assignment for `for_each`: `C17Bridge.call_site_key_is_object_identity`.) -/
theorem historyWiring_callSiteKey : Gen.HistoryWiring.callSiteKey =
  ["str(id(self))", "context.unique_context_identifier = self.unique_context_identifier", "str(id(self))", "old_context_identifier"] := rfl

end SnowModel.Props.C10Bridge
