/-
Fuel adequacy — the fuel of the L2 reference interpreter is only a termination device.

Every function of the interpreter (`renderFd`, `execTemplate`, `execRows`, `execRow`, `execFields`,
`execStmts`, then `iterations`, `chain`, `runChain`) takes a `fuel : Nat`, returns the distinct outcome
`.error .fuel` (status "fuel") when it runs out, and passes the fuel down.  The theorems here say that
fuel never influences a result in any other way: a result that is not "out of fuel" is *the* result —
the same for every larger amount of fuel (`*_fuel_mono`), hence the same for any two amounts of fuel
that both suffice (`runChain_fuel_irrelevant`).  So every theorem about `runChain fuel …` with a
status other than "fuel" is a theorem about the recipe, not about the fuel, and the differential
harness may pick any fuel it likes (it discards the cases reported as "fuel").

Proofs: `Proofs/L2Fuel.lean` (`FuelAll`/`fuelAll`: one simultaneous induction on fuel over the six
mutually recursive functions).
-/
import SnowModel.Core.L2
import SnowModel.Proofs.L2Fuel

namespace SnowModel.Props.L2Fuel
open SnowModel.L2

/-! ### the six mutually recursive functions -/

/-- **One more unit of fuel changes nothing** for any of the six functions of the mutual block, once
    the result is not "out of fuel" (the statement proved by simultaneous induction). -/
theorem mutual_fuel_succ (fuel : Nat) :
    (∀ c fd s, renderFd fuel c fd s ≠ .error .fuel →
        renderFd (fuel + 1) c fd s = renderFd fuel c fd s) ∧
    (∀ c t s, execTemplate fuel c t s ≠ .error .fuel →
        execTemplate (fuel + 1) c t s = execTemplate fuel c t s) ∧
    (∀ c t i n last s, execRows fuel c t i n last s ≠ .error .fuel →
        execRows (fuel + 1) c t i n last s = execRows fuel c t i n last s) ∧
    (∀ c t i s, execRow fuel c t i s ≠ .error .fuel →
        execRow (fuel + 1) c t i s = execRow fuel c t i s) ∧
    (∀ c h fs s, execFields fuel c h fs s ≠ .error .fuel →
        execFields (fuel + 1) c h fs s = execFields fuel c h fs s) ∧
    (∀ c sts cont s, execStmts fuel c sts cont s ≠ .error .fuel →
        execStmts (fuel + 1) c sts cont s = execStmts fuel c sts cont s) :=
  fuelAll fuel

/-- … hence any larger amount of fuel changes nothing: the result (a value and a state, a recipe
    error, or an "outside the model" verdict with its message) is literally the same. -/
theorem mutual_fuel_mono (fuel fuel' : Nat) (hle : fuel ≤ fuel') :
    (∀ c fd s, renderFd fuel c fd s ≠ .error .fuel →
        renderFd fuel' c fd s = renderFd fuel c fd s) ∧
    (∀ c t s, execTemplate fuel c t s ≠ .error .fuel →
        execTemplate fuel' c t s = execTemplate fuel c t s) ∧
    (∀ c t i n last s, execRows fuel c t i n last s ≠ .error .fuel →
        execRows fuel' c t i n last s = execRows fuel c t i n last s) ∧
    (∀ c t i s, execRow fuel c t i s ≠ .error .fuel →
        execRow fuel' c t i s = execRow fuel c t i s) ∧
    (∀ c h fs s, execFields fuel c h fs s ≠ .error .fuel →
        execFields fuel' c h fs s = execFields fuel c h fs s) ∧
    (∀ c sts cont s, execStmts fuel c sts cont s ≠ .error .fuel →
        execStmts fuel' c sts cont s = execStmts fuel c sts cont s) :=
  ⟨fun _ _ _ h => renderFd_fuel_mono h hle, fun _ _ _ h => execTemplate_fuel_mono h hle,
   fun _ _ _ _ _ _ h => execRows_fuel_mono h hle, fun _ _ _ _ h => execRow_fuel_mono h hle,
   fun _ _ _ _ h => execFields_fuel_mono h hle, fun _ _ _ _ h => execStmts_fuel_mono h hle⟩

/-! ### whole runs -/

/-- A run of `k` iterations that does not run out of fuel is the same run with any more fuel. -/
theorem iterations_fuel_mono (fuel fuel' : Nat) (r : Recipe) (k : Nat) (c : Ctx) (cont : Bool) (s : St)
    (h : iterations fuel r k c cont s ≠ .error .fuel) (hle : fuel ≤ fuel') :
    iterations fuel' r k c cont s = iterations fuel r k c cont s :=
  SnowModel.L2.iterations_fuel_mono h hle

/-- A chain of continued runs that does not run out of fuel is the same chain with any more fuel. -/
theorem chain_fuel_mono (fuel fuel' : Nat) (r : Recipe) (fs : Bool) (parts : List Nat) (cont : Bool)
    (s : St) (h : chain fuel r fs parts cont s ≠ .error .fuel) (hle : fuel ≤ fuel') :
    chain fuel' r fs parts cont s = chain fuel r fs parts cont s :=
  SnowModel.L2.chain_fuel_mono h hle

/-- The status string "fuel" means exactly that the chain ran out of fuel (no other status —
    "ok", "recipe_error", "outside:…" — can be spelled "fuel"). -/
theorem status_fuel_iff (fuel : Nat) (r : Recipe) (parts : List Nat) (fs : Bool) :
    (runChain fuel r parts fs).status = "fuel" ↔
      chain fuel r fs parts false (initSt r) = .error .fuel :=
  runChain_status_fuel_iff fuel r parts fs

/-- `runChain`, stated on the underlying chain: if the chain does not run out of fuel, more fuel gives
    the same `Outcome` (status and output). -/
theorem runChain_fuel_mono_chain (fuel fuel' : Nat) (r : Recipe) (parts : List Nat) (fs : Bool)
    (h : chain fuel r fs parts false (initSt r) ≠ .error .fuel) (hle : fuel ≤ fuel') :
    runChain fuel' r parts fs = runChain fuel r parts fs :=
  runChain_congr_chain (SnowModel.L2.chain_fuel_mono h hle)

/-- **Fuel monotonicity of whole runs.**  If a run does not report "fuel", every run with at least as
    much fuel has the same outcome: the same status (including the message of an "outside:…" status)
    and the same output rows. -/
theorem runChain_fuel_mono (fuel fuel' : Nat) (r : Recipe) (parts : List Nat) (fs : Bool)
    (h : (runChain fuel r parts fs).status ≠ "fuel") (hle : fuel ≤ fuel') :
    runChain fuel' r parts fs = runChain fuel r parts fs :=
  runChain_fuel_mono_chain fuel fuel' r parts fs (chain_ne_fuel_of_status h) hle

/-- **Fuel is irrelevant.**  Two runs of the same recipe and the same parts, with any two amounts of
    fuel, have equal outcomes unless one of them reports "fuel". -/
theorem runChain_fuel_irrelevant (fuel₁ fuel₂ : Nat) (r : Recipe) (parts : List Nat) (fs : Bool)
    (h₁ : (runChain fuel₁ r parts fs).status ≠ "fuel")
    (h₂ : (runChain fuel₂ r parts fs).status ≠ "fuel") :
    runChain fuel₁ r parts fs = runChain fuel₂ r parts fs := by
  rcases Nat.le_total fuel₁ fuel₂ with hle | hle
  · exact (runChain_fuel_mono fuel₁ fuel₂ r parts fs h₁ hle).symm
  · exact runChain_fuel_mono fuel₂ fuel₁ r parts fs h₂ hle

/-- Once some amount of fuel suffices, all larger amounts report the same, so "needs more fuel" is
    a property of a downward-closed set of fuels: if `fuel'` runs out, so does every `fuel ≤ fuel'`. -/
theorem runChain_fuel_downward (fuel fuel' : Nat) (r : Recipe) (parts : List Nat) (fs : Bool)
    (hle : fuel ≤ fuel') (h : (runChain fuel' r parts fs).status = "fuel") :
    (runChain fuel r parts fs).status = "fuel" := by
  apply Classical.byContradiction
  intro hne
  rw [runChain_fuel_mono fuel fuel' r parts fs hne hle] at h
  exact hne h

/-! ### non-vacuity -/

/-- a small recipe: a just_once parent and a child with a nested row -/
def demo : Recipe :=
  { v3 := false, options := [],
    statements :=
      [.obj (.mk "Parent" (some "p") true none [("name", .lit (.str "x"))] []),
       .obj (.mk "Child" none false none
          [("parent", .ref ["p"]), ("kid", .nested (.mk "Kid" none false none [] []))] [])] }

/-- 11 units of fuel are not enough, 12 are; the theorems then determine the outcome for every
    `fuel ≥ 12` -/
example : (runChain 11 demo [1, 2]).status = "fuel" ∧ (runChain 12 demo [1, 2]).status = "ok" ∧
    (runChain 12 demo [1, 2]).out.map (·.table) =
      ["Parent", "Kid", "Child", "Kid", "Child", "Kid", "Child"] := by decide +kernel

example (fuel : Nat) (h : 12 ≤ fuel) : runChain fuel demo [1, 2] = runChain 12 demo [1, 2] :=
  runChain_fuel_mono 12 fuel demo [1, 2] true (by decide +kernel) h

end SnowModel.Props.L2Fuel
