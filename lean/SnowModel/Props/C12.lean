/-
C12 — the randomised range is a permutation, also when extended.
Property theorems only (helper lemmas live in `SnowModel/Proofs/C12*.lean`).
Statements in this file are fixed; only proofs may change.
-/
import SnowModel.Core.RandRange
import SnowModel.Proofs.C12

namespace SnowModel.Props.C12
open SnowModel.RandRange

/-- The integers of `[a, b)` in increasing order. -/
def rangeInt (a b : Int) : List Int := (List.range (b - a).toNat).map (fun (i : Nat) => (i : Int) + a)

/-- **Permutation (indices).** For every non-empty range size and *every* value of the two
    random draws, the generator yields each index `0 .. maximum-1` exactly once. -/
theorem indices_perm (maximum d1 d2 : Nat) (hm : 0 < maximum) :
    (indices maximum d1 d2).Perm (List.range maximum) := by
  unfold indices
  rw [← Nat.add_zero (fuelFor maximum), Proofs.C12.loop_fuelFor maximum d1 d2 0 hm]
  exact Proofs.C12.orbitHead_perm maximum d1 d2 hm

/-- **Permutation.** `list(random_range(start, stop))` is a permutation of `[start, stop)` for every
    `start < stop` and every seed `(d1, d2)`. -/
theorem random_range_perm (start stop : Int) (d1 d2 : Nat) (h : start < stop) :
    (randomRange start stop d1 d2).Perm (rangeInt start stop) := by
  unfold randomRange rangeInt
  exact (indices_perm _ d1 d2 (by omega)).map _

/-- **…and then stops.** The loop ends because `found = maximum`, not because the model's fuel ran
    out: any larger fuel gives the same list. -/
theorem fuel_sufficient (maximum d1 d2 extra : Nat) (hm : 0 < maximum) :
    loop maximum d2 (fuelFor maximum + extra) 0 d1 = loop maximum d2 (fuelFor maximum) 0 d1 := by
  have h0 := Proofs.C12.loop_fuelFor maximum d1 d2 0 hm
  rw [Nat.add_zero] at h0
  rw [Proofs.C12.loop_fuelFor maximum d1 d2 extra hm, h0]

theorem random_range_empty (start stop : Int) (d1 d2 : Nat) (h : stop ≤ start) :
    randomRange start stop d1 d2 = [] := by
  have h0 : (stop - start).toNat = 0 := by omega
  simp [randomRange, indices, fuelFor, h0, loop]

/-! ### UpdatableRandomRange, for every generator oracle that yields permutations -/

/-- What `random_range_perm` guarantees of the real generator. -/
def GoodMk (mk : Mk) : Prop := ∀ n a b, a < b → (mk n a b).Perm (rangeInt a b)

/-- The real generator (any draw stream `ds`) is a `GoodMk`. -/
theorem randomRange_goodMk (ds : Nat → Nat × Nat) :
    GoodMk (fun n a b => randomRange a b (ds n).1 (ds n).2) := by
  intro n a b hab
  exact random_range_perm a b _ _ hab

/-- **No value is ever produced twice**, for every interleaving of next / extend / move
    (including operations that fail their assertion). -/
theorem urr_no_repeat (mk : Mk) (hmk : GoodMk mk) (a b : Int) (s : St) (hs : create mk a b = some s)
    (ops : List Op) : (values (run mk s ops).2).Nodup := by
  have h0 := Proofs.C12.create_inv1 mk hmk a b s hs
  have h1 := (Proofs.C12.run_inv1 mk hmk ops s [] h0).nd
  rw [List.nil_append] at h1
  exact List.Nodup.of_append_left h1

/-- States reachable from a freshly created object by any operation sequence. -/
def Reachable (mk : Mk) (s : St) : Prop :=
  ∃ a b s0 ops, create mk a b = some s0 ∧ (run mk s0 ops).1 = s

/-- Every produced value lies in the range that is current when it is produced. -/
theorem urr_value_in_current_range (mk : Mk) (hmk : GoodMk mk) (s : St) (hr : Reachable mk s)
    (s' : St) (v : Int) (h : step mk s Op.next = (s', Out.value v)) :
    s'.u.min ≤ v ∧ v < s'.u.curMax := by
  obtain ⟨a, b, s0, ops, hs0, rfl⟩ := hr
  have h0 := Proofs.C12.create_inv1 mk hmk a b s0 hs0
  have h1 := Proofs.C12.run_inv1 mk hmk ops s0 [] h0
  exact Proofs.C12.next_value_in_range mk hmk _ _ h1 s' v h

/-- **A move to a disjoint higher range**: a successful `setRange a b` with a new minimum requires
    `a ≥` the old top, and makes `[a, b)` the current range — so by
    `urr_value_in_current_range` only values of the new range appear afterwards. -/
theorem urr_move_sets_range (mk : Mk) (s s' : St) (a b : Int)
    (h : step mk s (Op.setRange a b) = (s', Out.ok)) (hne : a ≠ s.u.min) :
    s.u.origMax ≤ a ∧ s'.u.min = a ∧ s'.u.curMax = b ∧ s'.u.gen = mk s.made a b :=
  Proofs.C12.move_sets_range mk s s' a b h hne

/-- The minimum changes only through a successful move. -/
theorem urr_min_changes_only_by_move (mk : Mk) (s s' : St) (op : Op) (o : Out)
    (h : step mk s op = (s', o)) (hne : s'.u.min ≠ s.u.min) :
    ∃ a b, op = Op.setRange a b ∧ o = Out.ok ∧ s.u.origMax ≤ a ∧ s'.u.min = a :=
  Proofs.C12.min_changes_only_by_move mk s s' op o h hne

/-- A `setRange` is an *extension* when it keeps the minimum and does not lower the bound. -/
def ExtendOnly (lo : Int) : Int → List Op → Prop
  | _, [] => True
  | cur, Op.next :: ops => ExtendOnly lo cur ops
  | cur, Op.setRange x y :: ops => x = lo ∧ cur ≤ y ∧ ExtendOnly lo y ops

/-- `ExtendOnly` is (a verbatim copy of) the helper-file predicate `ExtendOnlyP`. -/
theorem extendOnly_iff {lo cur : Int} {ops : List Op} :
    ExtendOnly lo cur ops ↔ Proofs.C12.ExtendOnlyP lo cur ops := by
  induction ops generalizing cur with
  | nil => simp [ExtendOnly, Proofs.C12.ExtendOnlyP]
  | cons op ops ih =>
    cases op with
    | next => simp only [ExtendOnly, Proofs.C12.ExtendOnlyP]; exact ih
    | setRange x y => simp only [ExtendOnly, Proofs.C12.ExtendOnlyP]; rw [ih]

/-- **Raising the upper bound never fails** (this is what `random_reference … unique: true` does
    while the target table grows; refuted on the pinned commit — D06 — and true after the fix). -/
theorem urr_extend_never_fails (mk : Mk) (hmk : GoodMk mk) (a b : Int) (s : St)
    (hs : create mk a b = some s) (ops : List Op) (hext : ExtendOnly a b ops) :
    Out.assertion ∉ (run mk s ops).2 := by
  have hext' : Proofs.C12.ExtendOnlyP a b ops := extendOnly_iff.1 hext
  obtain ⟨hi0, hb⟩ := Proofs.C12.create_inv2 mk hmk a b s hs
  rw [← hb] at hext'
  exact (Proofs.C12.run_inv2 mk hmk a ops s [] hi0 hext').2

/-- **Every value below the final bound is eventually produced**: after any extension-only history,
    draining the range yields, together with what was already produced, exactly a permutation of
    `[a, final bound)`, and the next request stops. -/
theorem urr_exhaustive (mk : Mk) (hmk : GoodMk mk) (a b : Int) (s : St)
    (hs : create mk a b = some s) (ops : List Op) (hext : ExtendOnly a b ops) :
    let s' := (run mk s ops).1
    let n := (s'.u.curMax - a).toNat
    (values ((run mk s ops).2 ++ (run mk s' (List.replicate n Op.next)).2)).Perm (rangeInt a s'.u.curMax)
    ∧ (step mk (run mk s' (List.replicate n Op.next)).1 Op.next).2 = Out.stop :=
  Proofs.C12.exhaustive mk hmk a b s hs ops (extendOnly_iff.1 hext)

/-! ### Non-vacuity: concrete instances of the hypotheses -/

example : (indices 5 3 2).Perm (List.range 5) := indices_perm 5 3 2 (by decide)
example : randomRange 3 8 5 0 = [5, 6, 3, 4, 7] := by decide
example : ExtendOnly 1 2 [Op.next, Op.setRange 1 3, Op.next, Op.setRange 1 4, Op.next] := by
  simp [ExtendOnly]

end SnowModel.Props.C12
