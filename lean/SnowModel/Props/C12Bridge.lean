/-
C12 — bridging lemmas: the expressions regenerated from `randomized_range.py` on every run
(`Gen.RandomRange.*`, Python `int` semantics) coincide with the hand-written natural-number
model (`SnowModel.RandRange.*`) that the theorems of `Props/C12.lean` are about.
A change of an expression, comparison or of the loop skeleton in the source changes the
generated file and one of these lemmas stops type-checking.
-/
import SnowModel.Core.RandRange
import SnowModel.Generated.RandomRange

namespace SnowModel.Props.C12Bridge
open SnowModel.RandRange

theorem step_is_one : Gen.RandomRange.step = 1 := rfl

theorem maximum_eq (start stop : Int) :
    Gen.RandomRange.maximum start stop = stop - start := by
  simp [Gen.RandomRange.maximum]

/-- the first value is the first draw, drawn from `[0, maximum]` -/
theorem value0_eq (maximum d1 : Int) : Gen.RandomRange.value0 maximum d1 = d1 := rfl
theorem value0_bounds (maximum : Int) :
    Gen.RandomRange.value0_d1_lo = 0 ∧ Gen.RandomRange.value0_d1_hi maximum = maximum := ⟨rfl, rfl⟩

theorem offset_eq (maximum d2 : Nat) :
    Gen.RandomRange.offset maximum d2 = (offset d2 : Nat) := by
  simp [Gen.RandomRange.offset, offset]
theorem offset_bounds (maximum : Int) :
    Gen.RandomRange.offset_d2_lo = 0 ∧ Gen.RandomRange.offset_d2_hi maximum = maximum := ⟨rfl, rfl⟩

theorem multiplier_eq (maximum : Nat) :
    Gen.RandomRange.multiplier maximum = (multiplier maximum : Nat) := by
  simp only [Gen.RandomRange.multiplier, multiplier]
  rw [Int.fdiv_eq_ediv_of_nonneg _ (by omega)]
  omega

theorem bitLength_eq (n : Nat) : Py.bitLength (n : Int) = (bitLength n : Nat) := by
  simp only [Py.bitLength, bitLength, Int.natAbs_natCast]
  split <;> simp

theorem modulus_eq (maximum : Nat) (h : 0 < maximum) :
    Gen.RandomRange.modulus maximum = (modulus maximum : Nat) := by
  have e : ((maximum : Int) - 1) = ((maximum - 1 : Nat) : Int) := by omega
  simp only [Gen.RandomRange.modulus, modulus, e, bitLength_eq]
  simp

theorem nextValue_eq (maximum d2 value : Nat) :
    Gen.RandomRange.nextValue value (multiplier maximum : Nat) (offset d2 : Nat) (modulus maximum : Nat)
      = (nextValue maximum d2 value : Nat) := by
  simp only [Gen.RandomRange.nextValue, nextValue]
  rw [Int.fmod_eq_emod_of_nonneg _ (by omega)]
  norm_cast

theorem mapping_eq (i : Nat) (start : Int) : Gen.RandomRange.mapping i start = (i : Int) + start := by
  simp [Gen.RandomRange.mapping]

theorem loopCond_eq (found maximum : Nat) :
    Gen.RandomRange.loopCond found maximum = decide (found < maximum) := by
  simp [Gen.RandomRange.loopCond]

theorem yieldCond_eq (value maximum : Nat) :
    Gen.RandomRange.yieldCond value maximum = decide (value < maximum) := by
  simp [Gen.RandomRange.yieldCond]

/-- loop body = `if …: found += 1; yield mapping(value)` followed by the update of `value` -/
theorem loop_skeleton : Gen.RandomRange.loopSkeleton = ["If", "Assign", "|", "AugAssign", "Expr"] := rfl

/-! #### UpdatableRandomRange: the comparisons of the state machine `RandRange.step` -/

theorem setNewMaxAssert_eq (b cur : Int) :
    Gen.RandomRange.setNewMaxAssert b cur = decide (b ≥ cur) := rfl
theorem sameMin_eq (a m : Int) : Gen.RandomRange.sameMin a m = decide (a = m) := rfl
theorem moveAssert_eq (a om : Int) : Gen.RandomRange.moveAssert a om = decide (a ≥ om) := rfl
theorem immediateAssert_eq (b a : Int) : Gen.RandomRange.immediateAssert b a = decide (b > a) := rfl
theorem exhaustedCond_eq (c o : Int) : Gen.RandomRange.exhaustedCond c o = decide (c ≤ o) := rfl

/-- When the current generator is exhausted and the range was extended, `__next__` starts a
    generator for `[orig_max, cur_max)` and moves `orig_max` up; it assigns nothing else
    (in particular not `self.min`, see D06). -/
theorem next_assignments :
    Gen.RandomRange.nextAssignments =
      ["rv = next(self.num_generator, None)",
       "self.num_generator = random_range(self.orig_max, self.cur_max)",
       "self.orig_max = self.cur_max"] := rfl

end SnowModel.Props.C12Bridge
