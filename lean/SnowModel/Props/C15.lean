/-
C15 — Schedule.Event emits exactly the occurrences of the recurrence it describes.
Property theorems only (helper lemmas live in `SnowModel/Proofs/C15*.lean`); every theorem is
followed by a non-vacuity `example`.  All statements quantify over every rule / date / bound.
-/
import SnowModel.Core.Civil
import SnowModel.Core.Rrule
import SnowModel.Proofs.C15Civil
import SnowModel.Proofs.C15

namespace SnowModel.Props.C15
open SnowModel.Civil SnowModel.Rrule List

/-! ## The calendar (`date.toordinal` / `date.fromordinal` / `weekday`) -/

/-- **Round trip 1.** `fromordinal(toordinal(y, m, d)) = (y, m, d)` for every valid date. -/
theorem civil_ofOrd_toOrd (y m d : Nat) (h : Valid y m d) : ofOrd (toOrd y m d) = ⟨y, m, d⟩ :=
  Proofs.C15Civil.ofOrd_toOrd y m d h

example : ofOrd (toOrd 2024 2 29) = ⟨2024, 2, 29⟩ := by decide

/-- **Round trip 2.** Every ordinal `n ≥ 1` is a valid date and maps back to itself. -/
theorem civil_toOrd_ofOrd (n : Nat) (h : 1 ≤ n) :
    Valid (ofOrd n).y (ofOrd n).m (ofOrd n).d ∧ toOrd (ofOrd n).y (ofOrd n).m (ofOrd n).d = n :=
  Proofs.C15Civil.ofOrd_valid n h

example : toOrd (ofOrd 738946).y (ofOrd 738946).m (ofOrd 738946).d = 738946 := by decide

/-- `toOrd` is injective on valid dates (no two dates share an ordinal). -/
theorem civil_toOrd_injective (y m d y' m' d' : Nat) (h : Valid y m d) (h' : Valid y' m' d')
    (e : toOrd y m d = toOrd y' m' d') : y = y' ∧ m = m' ∧ d = d' := by
  have a := civil_ofOrd_toOrd y m d h
  have b := civil_ofOrd_toOrd y' m' d' h'
  rw [e] at a
  rw [a] at b
  injection b with h1 h2 h3
  exact ⟨h1, h2, h3⟩

/-- a year has 365 or 366 days, and consecutive years are laid out back to back -/
theorem civil_year_length (y : Nat) (h : 1 ≤ y) :
    daysBeforeYear (y + 1) = daysBeforeYear y + yearLen y ∧ (yearLen y = 365 ∨ yearLen y = 366) := by
  refine ⟨Proofs.C15Civil.dby_succ y h, ?_⟩
  unfold yearLen; split <;> simp

/-- the year of an ordinal is the unique year whose day range contains it -/
theorem civil_year_of_ord (n : Nat) (h : 1 ≤ n) :
    daysBeforeYear (yearOfOrd n) < n ∧ n ≤ daysBeforeYear (yearOfOrd n) + yearLen (yearOfOrd n) ∧
      1 ≤ yearday n ∧ yearday n ≤ yearLen (yearOfOrd n) := by
  obtain ⟨_, h2, h3⟩ := Proofs.C15Civil.yearOfOrd_spec n h
  unfold yearday
  omega

/-- weekdays cycle with period 7; ordinal 1 (0001-01-01) is a Monday -/
theorem civil_weekday (n : Nat) :
    weekday n < 7 ∧ weekday (n + 1) = (weekday n + 1) % 7 ∧ weekday (n + 7) = weekday n ∧ weekday 1 = 0 :=
  ⟨Proofs.C15Civil.weekday_lt n, Proofs.C15Civil.weekday_succ n, Proofs.C15Civil.weekday_add_seven n, rfl⟩

example : weekday (toOrd 2024 3 1) = 4 := by decide   -- a Friday

/-! ## Occurrences of one rule -/

/-- **occ_sorted.** The values of a rule come in strictly increasing order — for every rule
    (all seven frequencies), every horizon, every count / until. -/
theorem occ_sorted (r : Rule) (H : Int) (l : List Nat) (h : occ r H = .ok l) :
    l.Pairwise (· < ·) := by
  unfold occ at h
  split at h
  · cases h
  · rename_i hp
    have hi : 0 < r.interval := by
      unfold precheck at hp
      by_cases h0 : r.interval = 0
      · simp [h0] at hp
      · omega
    split at h
    · cases h; exact Pairwise.nil
    · cases h
      exact ((Proofs.C15.candidates_sorted r _ hi).filter _).sublist (Proofs.C15.takeCount_sublist _ _)

/-- the local-second bound as a natural number -/
def limN (r : Rule) (H : Int) : Nat := (limitOf r H).toNat

/-- **occ_sound** (YEARLY … DAILY). Every emitted value is at or after the start, not after
    `until` / the horizon, falls on a day that is aligned with the start (mod interval) and
    passes every supplied day filter, and its time of day lies in byhour × byminute × bysecond. -/
theorem occ_sound (r : Rule) (H : Int) (l : List Nat) (hs : r.freq.isSub = false)
    (h : occ r H = .ok l) (L : Nat) (hL : L ∈ l) :
    r.startL ≤ L ∧ (L : Int) ≤ limitOf r H ∧ occursDay r (L / 86400) = true ∧
      timeOk r (L % 86400) = true := by
  unfold occ at h
  split at h
  · cases h
  · split at h
    · cases h; cases hL
    · rename_i hlim
      cases h
      have hm := (Proofs.C15.takeCount_sublist r.count _).subset hL
      obtain ⟨h1, h2, h3, h4⟩ := (Proofs.C15.mem_occAll_day r _ L hs).1 hm
      exact ⟨h1, by omega, h3, h4⟩

/-- **occ_complete** (YEARLY … DAILY, no `count`). Every instant between the start and the
    bound that falls on an occurring day at a time of the time set *is* emitted: nothing is
    omitted. Together with `occ_sound` the emitted list is exactly that set. -/
theorem occ_complete (r : Rule) (H : Int) (l : List Nat) (hs : r.freq.isSub = false)
    (hc : r.count = none) (h : occ r H = .ok l) (L : Nat)
    (h1 : r.startL ≤ L) (h2 : (L : Int) ≤ limitOf r H)
    (h3 : occursDay r (L / 86400) = true) (h4 : timeOk r (L % 86400) = true) : L ∈ l := by
  unfold occ at h
  split at h
  · cases h
  · split at h
    · omega
    · cases h
      rw [hc]
      exact (Proofs.C15.mem_occAll_day r _ L hs).2 ⟨h1, by omega, h3, h4⟩

/-- **occ_sound / occ_complete for HOURLY, MINUTELY, SECONDLY** (no `count`): the emitted values
    are exactly the instants `slot + o` between the start and the bound, where `slot` runs over
    the lattice `trunc(dtstart) + k · unit · interval`, passes the day filters and the by-sets at
    or above the frequency's level (`slotOk`), and `o` ranges over the by-sets below that level
    (`subOffsets`): sub-daily frequencies step in seconds and use the filters as limits. -/
theorem occ_sub_exact (r : Rule) (H : Int) (l : List Nat) (hs : r.freq.isSub = true)
    (hc : r.count = none) (h : occ r H = .ok l) (hlim : 0 ≤ limitOf r H) (L : Nat) :
    L ∈ l ↔
      r.startL ≤ L ∧ (L : Int) ≤ limitOf r H ∧
        ∃ k o, slotOk r (Proofs.C15.slotBase r + k * Proofs.C15.slotStep r) = true ∧ o ∈ subOffsets r ∧
          L = Proofs.C15.slotBase r + k * Proofs.C15.slotStep r + o := by
  unfold occ at h
  split at h
  · cases h
  · rename_i hp
    have hi : 0 < r.interval := by
      unfold precheck at hp
      by_cases h0 : r.interval = 0
      · simp [h0] at hp
      · omega
    rw [if_neg (by omega)] at h
    cases h
    rw [hc]
    simp only [takeCount]
    rw [Proofs.C15.mem_occAll_sub r _ L hs]
    constructor
    · rintro ⟨h1, h2, k, o, _, h4, h5, h6⟩
      exact ⟨h1, by omega, k, o, h4, h5, h6⟩
    · rintro ⟨h1, h2, k, o, h4, h5, h6⟩
      refine ⟨h1, by omega, k, o, ?_, h4, h5, h6⟩
      have hstep : 0 < Proofs.C15.slotStep r := Nat.mul_pos (Proofs.C15.unitOf_pos _) hi
      have hL : Proofs.C15.slotBase r + k * Proofs.C15.slotStep r ≤ (limitOf r H).toNat := by omega
      rw [Nat.le_div_iff_mul_le hstep]
      omega

/-- the lattice of a sub-daily rule starts at dtstart truncated to the unit and advances by
    `interval` units: 3600 / 60 / 1 seconds -/
example : unitOf .hourly = 3600 ∧ unitOf .minutely = 60 ∧ unitOf .secondly = 1 := by decide

/-- **until_inclusive.** An occurrence exactly at `until` is emitted. -/
theorem until_inclusive (r : Rule) (H : Int) (l : List Nat) (u : Int) (hs : r.freq.isSub = false)
    (hc : r.count = none) (hu : r.untilAbs = some u) (hH : u ≤ H) (h : occ r H = .ok l) (L : Nat)
    (h1 : r.startL ≤ L) (hL : (L : Int) - r.off = u)
    (h3 : occursDay r (L / 86400) = true) (h4 : timeOk r (L % 86400) = true) : L ∈ l := by
  refine occ_complete r H l hs hc h L h1 ?_ h3 h4
  unfold limitOf
  rw [hu]
  simp only []
  omega

/-- **count_prefix.** `count: n` keeps the first `n` values of the same rule without `count`,
    for every rule (all frequencies). -/
theorem count_prefix (r : Rule) (n : Nat) (H : Int) (l : List Nat)
    (h : occ { r with count := none } H = .ok l) :
    occ { r with count := some n } H = .ok (l.take n) := by
  cases hpc : precheck { r with count := none } with
  | error e => simp [occ, hpc] at h
  | ok u =>
    have hp : precheck { r with count := some n } = .ok u := hpc
    simp only [occ, hpc] at h
    simp only [occ, hp]
    have hl : limitOf { r with count := some n } H = limitOf { r with count := none } H := rfl
    rw [hl]
    by_cases hneg : limitOf { r with count := none } H < 0
    · rw [if_pos hneg] at h ⊢; cases h; simp
    · rw [if_neg hneg] at h ⊢; cases h; simp [takeCount]; rfl

/-- **Each day keyword restricts only its own dimension**: adding `byyearday: l` to a rule keeps
    exactly those days of the rule-with-an-unconstraining-byyearday whose year-day is in `l`. -/
theorem byyearday_restricts_own_dimension (r : Rule) (l : List Int) (d : Nat) :
    occursDay { r with byyearday := some l } d =
      (occursDay { r with byyearday := some [] } d &&
        yeardayOk l (ofOrd d).y (yearday d)) := by
  simp only [occursDay, filtersOk, aligned, effBymonth, effBymonthday, effPlain, effNth, nthOk, noDayFilter,
    Rule.startYMD, yeardayOk, Option.getD_some, List.isEmpty_nil, Bool.true_or, Bool.and_true,
    Option.isNone_some, Bool.and_false, Bool.false_and, Bool.and_assoc]

/-- the same for `bymonthday` -/
theorem bymonthday_restricts_own_dimension (r : Rule) (l : List Int) (d : Nat) :
    occursDay { r with bymonthday := some l } d =
      (occursDay { r with bymonthday := some [] } d &&
        monthdayOk l (ofOrd d).y (ofOrd d).m (ofOrd d).d) := by
  simp only [occursDay, filtersOk, aligned, effBymonth, effBymonthday, effPlain, effNth, nthOk, noDayFilter,
    Rule.startYMD, monthdayOk, Option.getD_some, List.any_nil, Bool.not_false, Bool.true_or, Bool.and_true,
    Option.isNone_some, Bool.and_false, Bool.false_and, Bool.true_and]
  ac_rfl

/-- **Time keywords do not touch the day dimension** and day keywords do not touch the time set. -/
theorem time_and_day_dimensions_independent (r : Rule) (h m s : Option (List Int))
    (bm bmd byd bwn : Option (List Int)) (bwd : Option (List WDay)) (d t : Nat) :
    occursDay { r with byhour := h, byminute := m, bysecond := s } d = occursDay r d ∧
    timeOk { r with bymonth := bm, bymonthday := bmd, byyearday := byd, byweekno := bwn, byweekday := bwd } t
      = timeOk r t :=
  ⟨rfl, rfl⟩

/-- the documentation's Monday/Wednesday/Friday meeting (2023-01-01 is a Sunday) -/
def mwf : Rule :=
  { freq := .weekly, sOrd := 738521, sSod := 0, off := 0, interval := 1, count := none,
    untilAbs := none, bymonth := none, bymonthday := none, byyearday := none, byweekno := none,
    byweekday := some [⟨0, 0⟩, ⟨2, 0⟩, ⟨4, 0⟩], byhour := none, byminute := none, bysecond := none }

/-- non-vacuity of `occ_sound` / `occ_complete`: the hypotheses are satisfiable by a non-trivial
    rule — Monday 2023-01-02 occurs, Tuesday 2023-01-03 does not, midnight is the time set -/
example : toOrd 2023 1 1 = 738521 ∧ occursDay mwf 738522 = true ∧ occursDay mwf 738523 = false ∧
    timeOk mwf 0 = true ∧ timeOk mwf 1 = false ∧ mwf.freq.isSub = false ∧ mwf.count = none := by
  decide

/-! ## include / exclude (`rruleset`) -/

/-- **include_exclude, order.** The combined schedule is strictly increasing in time: sorted, and
    no instant (at microsecond resolution, `Inst.key`) twice — whatever the included and excluded parts are. -/
theorem combine_sorted (base rdates exdates : List Inst) (incl excl : List (List Inst)) :
    (combine base rdates exdates incl excl).Pairwise (fun a b => a.key < b.key) := by
  unfold combine
  refine Pairwise.filter _ (Proofs.C15.dedupAdj_strict _ ?_)
  have := pairwise_mergeSort (le := fun (a b : Inst) => decide (a.key ≤ b.key))
    (fun a b c hab hbc => by simp only [decide_eq_true_eq] at *; omega)
    (fun a b => by simp only [Bool.or_eq_true, decide_eq_true_eq]; omega)
    (rdates ++ base ++ incl.flatten)
  exact this.imp (fun h => by simpa using h)

/-- **include_exclude, content.** An instant is emitted iff it belongs to the rule, an included
    date or an included schedule, and to no excluded date or schedule:
    `result = (base ∪ include) \ exclude` as sets of instants. -/
theorem combine_mem (base rdates exdates : List Inst) (incl excl : List (List Inst)) (t : Int) :
    t ∈ (combine base rdates exdates incl excl).map (·.key) ↔
      t ∈ (rdates ++ base ++ incl.flatten).map (·.key) ∧ t ∉ (exdates ++ excl.flatten).map (·.key) := by
  unfold combine
  simp only [mem_map, mem_filter, Bool.not_eq_true', List.contains_eq_mem, decide_eq_false_iff_not]
  constructor
  · rintro ⟨i, ⟨hi, hex⟩, rfl⟩
    refine ⟨?_, ?_⟩
    · have : i.key ∈ (dedupAdj ((rdates ++ base ++ incl.flatten).mergeSort _)).map (·.key) :=
        mem_map.2 ⟨i, hi, rfl⟩
      rw [Proofs.C15.dedupAdj_key] at this
      obtain ⟨j, hj, hje⟩ := mem_map.1 this
      exact ⟨j, mem_mergeSort.1 hj, hje⟩
    · simpa [mem_map] using hex
  · rintro ⟨⟨j, hj, rfl⟩, hex⟩
    have : j.key ∈ (dedupAdj ((rdates ++ base ++ incl.flatten).mergeSort
        (fun a b => decide (a.key ≤ b.key)))).map (·.key) := by
      rw [Proofs.C15.dedupAdj_key]
      exact mem_map.2 ⟨j, mem_mergeSort.2 hj, rfl⟩
    obtain ⟨i, hi, hie⟩ := mem_map.1 this
    refine ⟨i, ⟨hi, ?_⟩, hie⟩
    rw [hie]
    simpa [mem_map] using hex

/-- non-vacuity: 20 is in the rule and (in another zone) among the included dates: emitted once;
    30 is excluded by a date, 10 by an excluded schedule -/
example :
    let c := combine [⟨10, 0, 0⟩, ⟨20, 0, 0⟩, ⟨30, 0, 0⟩] [⟨15, 0, 0⟩, ⟨20, 3600, 0⟩] [⟨30, 0, 0⟩] [[⟨5, 0, 0⟩]] [[⟨10, 7, 0⟩]]
    (20000000 : Int) ∈ c.map (·.key) ∧ (5000000 : Int) ∈ c.map (·.key) ∧ (30000000 : Int) ∉ c.map (·.key) ∧
      (10000000 : Int) ∉ c.map (·.key) := by
  intro c
  simp only [c, combine_mem]
  decide

/-! ## Keyword wiring (`CalendarRule.__init__`) -/

/-- **wiring_identity.** Every keyword of the recipe reaches the same-named argument of the
    recurrence, normalised from the same-named parameter (fix 5a30154 removed the `byweekno` ←
    `bysecond` mix-up). -/
theorem wiring_identity_keywords (p : Params) :
    (pluginRule p).bymonth = p.bymonth ∧ (pluginRule p).bymonthday = p.bymonthday ∧
    (pluginRule p).byyearday = p.byyearday ∧ (pluginRule p).byweekno = p.byweekno ∧
    (pluginRule p).byweekday = p.byweekday ∧ (pluginRule p).byhour = p.byhour ∧
    (pluginRule p).byminute = p.byminute ∧ (pluginRule p).bysecond = p.bysecond ∧
    (pluginRule p).freq = p.freq ∧ (pluginRule p).interval = p.interval.toNat ∧ (pluginRule p).count = p.count ∧
    (pluginRule p).sOrd = p.sOrd ∧ (pluginRule p).sSod = p.sSod ∧ (pluginRule p).off = p.off :=
  ⟨rfl, rfl, rfl, rfl, rfl, rfl, rfl, rfl, rfl, rfl, rfl, rfl, rfl, rfl⟩

/-- the input that exposed the repaired wiring defect -/
def d13Witness : Params :=
  { freq := .minutely, sOrd := 738946, sSod := 0, sUs := 0, off := 0, datePrecision := false, interval := 1,
    count := none, untilArg := none, bymonth := none, bymonthday := none, byyearday := none,
    byweekno := none, byweekday := none, byhour := none, byminute := none, bysecond := some [30] }

/-- regression witness: `bysecond: 30` no longer restricts the week of the year -/
example : (pluginRule d13Witness).byweekno = none ∧ (pluginRule d13Witness).bysecond = some [30] := by
  decide

/-- **zone_consistency** (full strength since fix eef84fd). For every start (time of day, zone,
    microseconds) and every form of the argument — date, date string, `datetime` object with or
    without zone, datetime string with or without offset — `until`, `include` and `exclude` denote
    the described instant *to the second* and carry the described zone: dates at the start's time
    of day in the start's zone, datetimes in their own zone (naive = UTC, as for `start_date`),
    a datetime-valued `until` with its time. (Sub-second precision: `date_arg_instant`.) -/
theorem zone_consistency (sSod sUs : Nat) (off : Int) (a : DateArg) :
    normUntil sSod off a = intendedUntil sSod off a ∧
    (normDateArg sSod sUs off a).map (fun i => (i.abs, i.off)) =
      (intendedDateArg sSod off a).map (fun i => (i.abs, i.off)) := by
  cases a <;> exact ⟨rfl, rfl⟩

/-- include / exclude entries are never rejected (a naive timestamp used to raise a TypeError
    inside `rruleset`) -/
theorem date_args_total (sSod sUs : Nat) (off : Int) (a : DateArg) :
    (normDateArg sSod sUs off a).isSome = true := by
  cases a <;> rfl

/-- **date_arg_instant** (full strength since fix 8a555f7). For *every* start — fractional
    seconds included — and every form of the argument, an `include` / `exclude` entry denotes
    exactly the described instant, at microsecond resolution: a date stands for the rule's own
    occurrence of that date (whole second, start's zone), a datetime for the instant it says. -/
theorem date_arg_instant (sSod sUs : Nat) (off : Int) (a : DateArg) :
    normDateArg sSod sUs off a = intendedDateArg sSod off a := by
  cases a <;> rfl

/-- **excluded_date_hits_occurrence** (full strength). For every rule, every date and whatever
    the start's microseconds were: the value a date-valued `exclude` / `include` stands for *is*
    the instant at which the rule occurs on that date — so excluding the date removes that
    occurrence (and including it adds nothing twice). -/
theorem excluded_date_hits_occurrence (r : Rule) (sUs d : Nat) :
    normDateArg r.sSod sUs r.off (.date d) = some (atStartTime r.sSod r.off d) ∧
    (atStartTime r.sSod r.off d).key = (r.inst (d * 86400 + r.sSod)).key ∧
    combine [r.inst (d * 86400 + r.sSod)] [] [atStartTime r.sSod r.off d] [] [] = [] ∧
    (combine [r.inst (d * 86400 + r.sSod)] [atStartTime r.sSod r.off d] [] [] []).length = 1 := by
  have hk : (atStartTime r.sSod r.off d).key = (r.inst (d * 86400 + r.sSod)).key := by
    simp only [atStartTime, Rule.inst, Inst.key]
    omega
  refine ⟨rfl, hk, ?_, ?_⟩
  · cases hc : combine [r.inst (d * 86400 + r.sSod)] [] [atStartTime r.sSod r.off d] [] [] with
    | nil => rfl
    | cons x t =>
      have hx : x.key ∈ (combine [r.inst (d * 86400 + r.sSod)] [] [atStartTime r.sSod r.off d] [] []).map (·.key) := by
        rw [hc]; simp
      rw [combine_mem] at hx
      obtain ⟨h1, h2⟩ := hx
      simp only [List.nil_append, List.flatten_nil, List.append_nil, List.map_cons, List.map_nil,
        List.mem_singleton] at h1 h2
      exact absurd (h1.trans hk.symm) h2
  · -- included date and own occurrence are one instant: emitted once
    have hs := combine_sorted [r.inst (d * 86400 + r.sSod)] [atStartTime r.sSod r.off d] [] [] []
    have hm := combine_mem [r.inst (d * 86400 + r.sSod)] [atStartTime r.sSod r.off d] [] [] []
    cases hc : combine [r.inst (d * 86400 + r.sSod)] [atStartTime r.sSod r.off d] [] [] [] with
    | nil =>
      have := (hm (r.inst (d * 86400 + r.sSod)).key).2 ⟨by simp, by simp⟩
      rw [hc] at this
      cases this
    | cons x t =>
      cases t with
      | nil => rfl
      | cons y t' =>
        rw [hc] at hs
        have hxy : x.key < y.key := (List.pairwise_cons.1 hs).1 y (by simp)
        have mem_key : ∀ z, z ∈ x :: y :: t' → z.key = (r.inst (d * 86400 + r.sSod)).key := by
          intro z hz
          have : z.key ∈ (combine [r.inst (d * 86400 + r.sSod)] [atStartTime r.sSod r.off d] [] [] []).map (·.key) := by
            rw [hc]; exact List.mem_map.2 ⟨z, hz, rfl⟩
          have h1 := ((hm z.key).1 this).1
          simp only [List.flatten_nil, List.append_nil, List.cons_append, List.nil_append, List.map_cons,
            List.map_nil, List.mem_cons, List.not_mem_nil, or_false] at h1
          rcases h1 with h | h
          · exact h.trans hk
          · exact h
        have hx := mem_key x (by simp)
        have hy := mem_key y (by simp)
        omega

/-- **the old behaviour (before 8a555f7, D53) against the same statement:** keeping the start's
    microseconds, the excluded date's instant differs from the occurrence's and the exclusion
    removes nothing — a statement about the explicitly named old model `atStartTimeKeepingMicros`,
    kept as the regression witness (start `23:59:59.99+08:00`, date 2023-11-01). -/
theorem old_behaviour_missed_occurrence :
    ∃ (r : Rule) (sUs d : Nat),
      (atStartTimeKeepingMicros r.sSod sUs r.off d).key ≠ (r.inst (d * 86400 + r.sSod)).key ∧
      combine [r.inst (d * 86400 + r.sSod)] [] [atStartTimeKeepingMicros r.sSod sUs r.off d] [] [] ≠ [] := by
  refine ⟨{ mwf with sSod := 86399, off := 28800 }, 990000, 738826, by decide, ?_⟩
  intro h
  have hm := (combine_mem [({ mwf with sSod := 86399, off := 28800 } : Rule).inst (738826 * 86400 + 86399)] []
    [atStartTimeKeepingMicros 86399 990000 28800 738826] [] [] ((738826 * 86400 + 86399 - 28800 : Int) * 1000000)).2
    ⟨by decide, by decide⟩
  rw [h] at hm
  cases hm

/-- the inputs that exposed the repaired zone defects (D21 `+05:00` start with a date-valued
    `until`; D35 a datetime-valued `until` at 05:00 with a 10:00 start; D36 a naive timestamp):
    the plugin's reading now is the described instant -/
example :
    normUntil 36000 18000 (.date 738948) = (738948 : Int) * 86400 + 36000 - 18000 ∧
    normUntil 36000 0 (.dtObj 738948 18000 0 none) = (738948 : Int) * 86400 + 18000 ∧
    normDateArg 36000 990000 18000 (.date 738947) = some ⟨(738947 : Int) * 86400 + 36000 - 18000, 18000, 0⟩ ∧
    normDateArg 36000 0 0 (.dtObj 738947 36000 0 none) = some ⟨(738947 : Int) * 86400 + 36000, 0, 0⟩ := by
  decide

/-- **rule_identity** (full strength): the rule the plugin hands to the recurrence engine *is*
    the rule the keywords describe — for every keyword set. (Refuted before fixes 5a30154 and
    eef84fd by `byweekno` and by the reading of `until`.) -/
theorem rule_identity (p : Params) : pluginRule p = intendedRule p := by
  have h2 : ∀ o : Option DateArg,
      o.map (normUntil p.sSod p.off) = o.map (intendedUntil p.sSod p.off) := by
    intro o
    cases o with
    | none => simp
    | some u => simp [(zone_consistency p.sSod p.sUs p.off u).1]
  have e : pluginRule p = { intendedRule p with untilAbs := p.untilArg.map (normUntil p.sSod p.off) } := rfl
  rw [e, h2]
  rfl

/-- **wiring_identity** — the statement planned in DESIGN §5, at full strength -/
theorem wiring_identity (p : Params) : pluginRule p = intendedRule p := rule_identity p

/-! ## The interval guard (`CalendarRule.__init__`, fix 66ecebf) -/

/-- **interval_guard_error** (error branch). An `interval` below 1 is rejected before any rule is
    built — for every other keyword (unless the opt-in gate, which is checked first, already
    rejected the call): the schedule yields an error, never a value and never a hang. -/
theorem interval_guard_error (p : Params) (H : Int) (hi : p.interval < 1) :
    (pluginCheck p = .error .badInterval ∨ pluginCheck p = .error .gated) ∧
    (pluginOcc p H = .error .badInterval ∨ pluginOcc p H = .error .gated) := by
  have hie : intervalError p = true := by simp [intervalError, hi]
  unfold pluginOcc pluginCheck
  by_cases hg : gated p.byweekno = true
  · simp [hg]
  · simp [hg, hie]

/-- **interval_guard_positive.** Whenever the checks pass, the rule handed to the recurrence
    engine has `interval ≥ 1` and keeps the recipe's value: `0 < interval` is a *checked*
    precondition of everything below, not an assumption. -/
theorem interval_guard_positive (p : Params) (r : Rule) (h : pluginCheck p = .ok r) :
    r = pluginRule p ∧ 0 < r.interval ∧ (r.interval : Int) = p.interval := by
  unfold pluginCheck at h
  split at h
  · cases h
  · split at h
    · cases h
    · rename_i hie
      split at h
      · cases h
      · cases h
        have : ¬ p.interval < 1 := by simpa [intervalError] using hie
        refine ⟨rfl, ?_, ?_⟩ <;> simp only [pluginRule] <;> omega

/-- the engine's own `badInterval` outcome (dateutil's endless loop) is unreachable from a recipe -/
theorem interval_never_reaches_engine (p : Params) (H : Int) :
    pluginOcc p H ≠ .error (.rule .badInterval) := by
  intro h
  unfold pluginOcc at h
  cases hc : pluginCheck p with
  | error e =>
    rw [hc] at h
    simp only [Except.error.injEq] at h
    subst h
    unfold pluginCheck at hc
    split at hc
    · cases hc
    · split at hc
      · cases hc
      · split at hc <;> cases hc
  | ok r =>
    rw [hc] at h
    dsimp only at h
    have hpos := (interval_guard_positive p r hc).2.1
    cases ho : occ r H with
    | ok l => rw [ho] at h; cases h
    | error e =>
      rw [ho] at h
      simp only [Except.error.injEq, PErr.rule.injEq] at h
      subst h
      unfold occ at ho
      have hp : precheck r ≠ .error .badInterval := by
        unfold precheck
        have : (r.interval == 0) = false := by simp; omega
        rw [this]
        simp only [Bool.false_eq_true, if_false]
        repeat' split
        all_goals (intro hh; cases hh)
      cases hpc : precheck r with
      | error e' =>
        rw [hpc] at ho
        simp only [Except.error.injEq] at ho
        subst ho
        exact hp hpc
      | ok u =>
        rw [hpc] at ho
        simp only [] at ho
        split at ho <;> cases ho

/-- **plugin_occ_sorted**: the values of a `Schedule.Event`'s own rule are strictly increasing —
    with no hypothesis on `interval` (the guard supplies it) -/
theorem plugin_occ_sorted (p : Params) (H : Int) (l : List Nat) (h : pluginOcc p H = .ok l) :
    l.Pairwise (· < ·) := by
  unfold pluginOcc at h
  cases hc : pluginCheck p with
  | error e => rw [hc] at h; cases h
  | ok r =>
    rw [hc] at h
    dsimp only at h
    cases ho : occ r H with
    | error e => rw [ho] at h; cases h
    | ok l' =>
      rw [ho] at h
      have e : l' = l := by injection h
      exact e ▸ occ_sorted r H l' ho

/-- non-vacuity: `interval: 0` and `interval: -2` are errors, `interval: 3` passes with 3 -/
example :
    (match pluginCheck { d13Witness with interval := 0 } with | .error .badInterval => true | _ => false) = true ∧
    (match pluginCheck { d13Witness with interval := -2 } with | .error .badInterval => true | _ => false) = true ∧
    (pluginCheck { d13Witness with interval := 3 }).toOption.map (·.interval) = some 3 := by
  decide

/-! ## One schedule per call: the `@memorable` state cache -/

/-- **cache_key_injective.** The key separates any two different calls: same key ⇒ same
    context, same positional values, same keyword names *and values*. -/
theorem cache_key_injective (c₁ c₂ : Call) (h : cacheKey c₁ = cacheKey c₂) : c₁ = c₂ := by
  cases c₁; cases c₂
  simp only [cacheKey, keyWith, keyParts, List.map, KeyPart.of, List.cons.injEq, KeyVal.ctx.injEq,
    KeyVal.vals.injEq, KeyVal.items.injEq, and_true] at h
  obtain ⟨h1, h2, h3⟩ := h
  subst h1; subst h2; subst h3
  rfl

/-- **rows_share_one_schedule.** Evaluating the same call again (the next row of the template)
    returns the state made the first time and leaves the store alone — so successive rows draw
    successive occurrences from one `CalendarRule`: one row per occurrence. Holds for any key. -/
theorem rows_share_one_schedule {σ : Type} (parts : List KeyPart) (make : Call → σ) (st : Store σ) (c : Call) :
    evalMemo parts make (evalMemo parts make st c).2 c = ((evalMemo parts make st c).1, (evalMemo parts make st c).2) := by
  unfold evalMemo
  cases h : List.lookup (keyWith parts c) st with
  | some v => simp [h]
  | none => simp [List.lookup]

/-- **distinct_calls_get_distinct_schedules.** With the pinned key, a call that differs from every
    call evaluated so far — in any value — gets its own freshly made state, never another call's. -/
theorem distinct_calls_get_distinct_schedules {σ : Type} (make : Call → σ) (st : Store σ) (c₁ c₂ : Call)
    (hne : c₁ ≠ c₂) (hfresh : st.lookup (cacheKey c₂) = none) :
    (evalMemo keyParts make (evalMemo keyParts make st c₁).2 c₂).1 = make c₂ := by
  have hk : cacheKey c₂ ≠ cacheKey c₁ := fun h => hne (cache_key_injective _ _ h).symm
  have hk' : (cacheKey c₂ == cacheKey c₁) = false := by simpa using hk
  unfold evalMemo
  change (match List.lookup (cacheKey c₂) (match List.lookup (cacheKey c₁) st with
      | some v => (v, st)
      | none => (make c₁, (cacheKey c₁, make c₁) :: st)).2 with
    | some v => (v, _)
    | none => (make c₂, _)).1 = make c₂
  cases h1 : List.lookup (cacheKey c₁) st with
  | some v => simp [hfresh]
  | none => simp [List.lookup, hk', hfresh]

/-- why the *values* must be in the key: a key made of the context, the number of positional
    arguments and the keyword *names* confuses `Event(start_date=A)` with `Event(start_date=B)`,
    and the second call is then handed the first call's schedule -/
example :
    let a : Call := ⟨7, [], [("freq", 1), ("start_date", 2000), ("count", 2)]⟩
    let b : Call := ⟨7, [], [("freq", 1), ("start_date", 2010), ("count", 2)]⟩
    a ≠ b ∧ keyWith [.contextId, .argCount, .kwargNames] a = keyWith [.contextId, .argCount, .kwargNames] b ∧
      (evalMemo [.contextId, .argCount, .kwargNames] id (evalMemo [.contextId, .argCount, .kwargNames] id [] a).2 b).1 = a ∧
      (evalMemo keyParts id (evalMemo keyParts id [] a).2 b).1 = b := by
  decide

/-- **inclusions_are_distinct_call_sites.** The templates that include a macro get pairwise
    disjoint sets of call-site identities (each inclusion parses the fields anew), all beyond the
    identities handed out before: with `cache_key_injective` every including template therefore
    owns its schedule and its k-th row carries the k-th occurrence from `start_date`. -/
theorem inclusions_are_distinct_call_sites (next n k : Nat) :
    (includeMacro next n k).1.length = k ∧
    (includeMacro next n k).2 = next + k * n ∧
    (∀ ids ∈ (includeMacro next n k).1, ids.length = n ∧ ∀ i ∈ ids, next ≤ i ∧ i < next + k * n) ∧
    (includeMacro next n k).1.Pairwise (fun a b => ∀ i ∈ a, ∀ j ∈ b, i ≠ j) := by
  induction k generalizing next with
  | zero => simp [includeMacro]
  | succ k ih =>
    obtain ⟨h1, h2, h3, h4⟩ := ih (next + n)
    simp only [includeMacro, parseFields]
    refine ⟨by simp [h1], by rw [h2, Nat.succ_mul]; omega, ?_, ?_⟩
    · intro ids hids
      rcases List.mem_cons.1 hids with rfl | hm
      · refine ⟨by simp, fun i hi => ?_⟩
        have := List.mem_range'_1.1 hi
        rw [Nat.succ_mul]; omega
      · obtain ⟨a, b⟩ := h3 ids hm
        refine ⟨a, fun i hi => ?_⟩
        have := b i hi
        rw [Nat.succ_mul]; omega
    · rw [List.pairwise_cons]
      refine ⟨fun b hb i hi j hj => ?_, h4⟩
      have hi' := List.mem_range'_1.1 hi
      have hj' := (h3 b hb).2 j hj
      omega

example : (includeMacro 10 2 3).1 = [[10, 11], [12, 13], [14, 15]] := by decide

/-! ## Precision of the emitted values -/

/-- **precision.** A field (`next()`) with a date-precision start sees the local calendar date
    of each value; every other path sees the datetime in the zone of the value's source; values
    of the rule itself carry the start's offset. -/
theorem precision (i : Inst) (r : Rule) (L : Nat) :
    emit true true i = .date ((i.abs + i.off) / 86400) ∧
    emit false true i = .datetime i.abs i.off i.us ∧
    (∀ dp, emit dp false i = .datetime i.abs i.off i.us) ∧
    (r.inst L).off = r.off ∧ (r.inst L).abs + (r.inst L).off = L ∧ (r.inst L).us = 0 := by
  refine ⟨rfl, rfl, ?_, rfl, ?_, rfl⟩
  · intro dp; cases dp <;> rfl
  · simp only [Rule.inst]; omega

example : emit true true ⟨(toOrd 2024 3 1 : Nat) * 86400 + 36000, 0, 0⟩ = .date (toOrd 2024 3 1) := by decide

end SnowModel.Props.C15
