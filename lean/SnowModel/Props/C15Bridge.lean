/-
C15 — bridging lemmas: the tables regenerated from `snowfakery/standard_plugins/Schedule.py` on
every run (`Gen.Schedule.*`) coincide with what the hand-written model `SnowModel.Rrule` assumes.
A change of the keyword wiring, of the date helpers' zone handling, of the isinstance order, of
the output paths or of the integer-list normaliser changes the generated file and one of these
lemmas stops type-checking.

Recorded (unrepaired) defects would be stated *relative to* `Known.*` (mirrors `known_findings.json`; none
is left for C15): a known
mismatch builds, any new one breaks the lemma.
-/
import SnowModel.Core.Rrule
import SnowModel.Generated.Schedule
import SnowModel.Generated.Memorable
import SnowModel.Generated.MemoState
import SnowModel.Generated.DateParse
import SnowModel.Generated.CallSite
import SnowModel.Generated.MacroParse

namespace SnowModel.Props.C15Bridge
open SnowModel.Rrule

namespace Known
/-- no recorded wiring mismatch (D13, `byweekno` fed from `bysecond`, was repaired by 5a30154) -/
def wiringMismatches : List (Kw × Kw) := []
/-- no recorded zone defect (D21 / D35 / D36 were repaired by eef84fd): the start itself defaults
    to UTC; date-valued arguments take the start's zone -/
def startZone : String := "timezone.utc"
def dateArgZone : String := "self.start_date.tzinfo"
end Known

/-- renames that are part of the design, not mismatches: `dtstart` is the normalised
    `start_date`, `wkst` is the constant `SU`, `byweekday` is parsed or `None` -/
def structuralRenames : List (Kw × Kw) :=
  [(.dtstart, .startDate), (.wkst, .constSU), (.byweekday, .byweekdayOrNone)]

/-- the pinned wiring (keyword, source parameter) is the table the model's `pluginRule` follows -/
theorem wiring_pin :
    Gen.Schedule.rruleWiring.map (fun e => (e.1, e.2.2)) = wiringTable.map (fun e => (e.1.name, e.2.name)) := by
  decide

/-- the expression passed for each keyword is the local of the same name (or its documented
    normalised form) -/
theorem wiring_locals :
    Gen.Schedule.rruleWiring.map (fun e => (e.1, e.2.1)) =
      [("freq", "freq"), ("dtstart", "self.start_date"), ("interval", "interval"), ("wkst", "wkst"),
       ("count", "count"), ("until", "until"), ("bysetpos", "bysetpos"), ("bymonth", "bymonth"),
       ("bymonthday", "bymonthday"), ("byyearday", "byyearday"), ("byeaster", "byeaster"),
       ("byweekno", "byweekno"), ("byweekday", "byweekday_normalized"), ("byhour", "byhour"),
       ("byminute", "byminute"), ("bysecond", "bysecond"), ("cache", "cache")] := by
  decide

/-- **wiring_identity over the pin**: apart from the three structural renames, every keyword of
    the pinned `rrule(...)` call is fed from the same-named parameter -/
theorem wiring_identity_pinned :
    ∀ e ∈ Gen.Schedule.rruleWiring,
      (e.1, e.2.2) ∈ structuralRenames.map (fun r => (r.1.name, r.2.name)) ∨ e.1 = e.2.2 := by
  decide

/-- the same on the model's table; `Known.wiringMismatches` is empty -/
theorem wiring_identity_modulo_known :
    wiringTable.filter (fun e => e.1 != e.2 && !structuralRenames.contains e) = Known.wiringMismatches := by
  decide

/-- every integer-list keyword is fed from the same-named parameter -/
theorem wiring_sources :
    sourceOf .bymonth = .bymonth ∧ sourceOf .bymonthday = .bymonthday ∧ sourceOf .byyearday = .byyearday ∧
    sourceOf .byhour = .byhour ∧ sourceOf .byminute = .byminute ∧ sourceOf .bysecond = .bysecond ∧
    sourceOf .byweekno = .byweekno := by
  decide

/-- `Schedule.Event` hands every keyword to the same-named parameter of `CalendarRule` -/
theorem event_passthrough_identity : ∀ e ∈ Gen.Schedule.eventPassthrough, e.1 = e.2 := by
  decide

/-- … all of them, and never `use_undocumented_features` (so the gate can not be opened from a recipe) -/
theorem event_passes_all_params :
    Gen.Schedule.eventPassthrough.map (·.1) = Gen.Schedule.eventParams ∧
    Gen.Schedule.eventParams ++ ["use_undocumented_features"] = Gen.Schedule.ruleParams := by
  decide

/-- the opt-in gate looks at bysetpos, byeaster, cache and the *user's* byweekno -/
theorem gate_pin :
    Gen.Schedule.gateAny = ["bysetpos", "byeaster", "cache", "byweekno"] ∧
    Gen.Schedule.gateArgs = "use_undocumented_features" :: Gen.Schedule.gateAny ∧
    Gen.Schedule.gateTest = ["not use_undocumented_features and any([bysetpos, byeaster, cache, byweekno])"] := by
  decide

/-- zone handling of the date helpers: only the *start* is given UTC (a date start at midnight
    UTC, a naive datetime start read as UTC); `_at_start_time` — the one place where a date-valued
    `until` / `include` / `exclude` becomes a datetime — uses the start's own zone
    (`atStartTime` in the model); no other helper sets a zone -/
theorem helpers_zone_pin :
    Gen.Schedule.helperTzinfo =
      [("_normalize_start_date", "time", Known.startZone),
       ("_normalize_start_date", "start_date.replace", Known.startZone),
       ("_at_start_time", "datetime.combine", Known.dateArgZone)] ∧
    Gen.Schedule.atStartTime =
      ["start_time = self.start_date.time().replace(microsecond=0)",
       "return datetime.combine(d, start_time, tzinfo=self.start_date.tzinfo)"] := by
  decide

/-- `_normalize_until` as modelled by `normUntil`: datetime string → `parse_datetimespec`; date
    string → `_at_start_time(parse_date)`; `datetime` object (tested *before* `date`) →
    `parse_datetimespec`; `date` → `_at_start_time`; finally converted (not re-labelled) to UTC -/
theorem until_pin :
    Gen.Schedule.untilTests =
      ["not until", "isinstance(until, str) and is_datetime(until)", "isinstance(until, str)",
       "isinstance(until, datetime)", "isinstance(until, date)"] ∧
    Gen.Schedule.untilAssignments =
      ["until = parse_datetimespec(until)", "until = self._at_start_time(parse_date(until))",
       "until = parse_datetimespec(until)", "until = self._at_start_time(until)"] ∧
    Gen.Schedule.untilReturn = ["until.astimezone(timezone.utc)", "None"] := by
  decide

/-- `_process_special_cases` as modelled by `normDateArg` / `combine`: list → each; rule → its
    ruleset; `datetime` → `parse_datetimespec` (naive = UTC); `date` → `_at_start_time`;
    string → `_at_start_time(parse_date(…))` -/
theorem special_cases_pin :
    Gen.Schedule.specialTests =
      ["action == 'exclude'", "action == 'include'", "isinstance(case, (list, tuple))",
       "isinstance(case, CalendarRule)", "isinstance(case, datetime)", "isinstance(case, date)",
       "isinstance(case, str)"] ∧
    Gen.Schedule.specialBranches =
      [("isinstance(case, (list, tuple))", "for case in case: ;     self._process_special_cases(case, action)"),
       ("isinstance(case, CalendarRule)", "add_rule(T.cast(T.Any, case.ruleset))"),
       ("isinstance(case, datetime)", "add_date(parse_datetimespec(case))"),
       ("isinstance(case, date)", "self._process_special_cases(self._at_start_time(case), action)"),
       ("isinstance(case, str)", "self._process_special_cases(self._at_start_time(parse_date(case)), action)")] ∧
    Gen.Schedule.initCalls =
      ["self._check_undocumented_features(use_undocumented_features, bysetpos, byeaster, cache, byweekno)",
       "self._set_output_datetype_date_or_datetime(precision)", "self.ruleset.rrule(self.rrule)",
       "exclude -> self._process_special_cases(exclude, 'exclude')",
       "include -> self._process_special_cases(include, 'include')"] := by
  decide

/-- `parse_datetimespec` / `parse_date` as the model's `parseDatetimespec` and the date forms
    assume: a datetime keeps its zone and a naive one means UTC (object and string alike), a
    `datetime` given where a date is wanted contributes its own calendar date, strings are read by
    dateutil (only strings go through the cached helpers) -/
theorem date_parse_pin :
    Gen.DateParse.parseDatetimespec =
      [("isinstance(d, datetime)", "if not d.tzinfo: ;     d = d.replace(tzinfo=timezone.utc) ; return d"),
       ("isinstance(d, str)", "if d == 'now': ;     return datetime.now(tz=timezone.utc) ; elif d == 'today': ;     return datetime.combine(date.today(), datetime.min.time(), tzinfo=timezone.utc) ; return _parse_datetime_str(d)"),
       ("isinstance(d, date)", "return datetime.combine(d, datetime.min.time(), tzinfo=timezone.utc)")] ∧
    Gen.DateParse.parseDate =
      [("isinstance(d, datetime)", "return d.date()"), ("isinstance(d, date)", "return d"),
       ("return", "_parse_date_str(d)")] ∧
    Gen.DateParse.parsedatetimestrBody =
      ["dt = dateutil.parser.parse(d)", "if not dt.tzinfo: ;     dt = dt.replace(tzinfo=timezone.utc)", "return dt"] ∧
    Gen.DateParse.parsedatestrBody = ["return dateutil.parser.parse(d).date()"] := ⟨rfl, rfl, rfl, rfl⟩

/-- the interval guard modelled by `intervalError` / `pluginCheck`: not an int, a bool, or
    below 1 ⇒ `DataGenValueError`; it sits after the gate, the start / list / until normalisation
    and before the frequency check and the `rrule(...)` call -/
theorem interval_guard_pin :
    Gen.Schedule.intervalGuard =
      ["not isinstance(interval, int) or isinstance(interval, bool) or interval < 1", "exc.DataGenValueError"] ∧
    Gen.Schedule.initSteps =
      ["self._check_undocumented_features(use_undocumented_features, bysetpos, byeaster, cache, byweekno)",
       "(self.start_date, precision) = self._normalize_start_date(start_date)",
       "self._set_output_datetype_date_or_datetime(precision)", "wkst = rrule_mod.SU",
       "bysetpos = process_list_of_ints(bysetpos)", "bymonth = process_list_of_ints(bymonth)",
       "bymonthday = process_list_of_ints(bymonthday)", "byyearday = process_list_of_ints(byyearday)",
       "byeaster = process_list_of_ints(byeaster)", "byhour = process_list_of_ints(byhour)",
       "byminute = process_list_of_ints(byminute)", "bysecond = process_list_of_ints(bysecond)",
       "byweekno = process_list_of_ints(byweekno)", "until = self._normalize_until(until)",
       "if not isinstance(interval, int) or isinstance(interval, bool) or interval < 1",
       "freq = self._normalize_frequency(freq)", "if byweekday", "self.ruleset = rruleset(cache)",
       "self.rrule = rrule(...)", "self.ruleset.rrule(self.rrule)", "self.compound = include or exclude",
       "if exclude", "if include", "self.iterator = iter(self)"] := ⟨rfl, rfl⟩

/-- the cache key of `evaluate_memorable_function` is built from the context, the positional
    *values* and the keyword *items* — the `keyParts` of the model, for which
    `cache_key_injective` / `distinct_calls_get_distinct_schedules` are proved -/
theorem memo_key_pin :
    Gen.Memorable.userKeyParts = keyParts.map KeyPart.src ∧
    Gen.Memorable.userKeyOverride = ["kwargs.get('name')"] ∧
    Gen.Memorable.keyTuple = ["func.__module__", "func.__name__", "user_key"] := by
  decide

/-- `Schedule.Event` is `@memorable`; `for_each` bypasses the cache; otherwise the state is looked
    up under the key and made by calling the function (`evalMemo`) -/
theorem memo_paths_pin :
    Gen.Schedule.eventDecorators = ["memorable"] ∧
    Gen.Memorable.wrapper = ["evaluate_memorable_function(self.context, func, self, args, kwargs)"] ∧
    Gen.Memorable.recalc =
      ["context.interpreter.current_context.recalculate_every_time", "return func(self, *args, **kwargs)"] ∧
    Gen.Memorable.stateFunc = ["context.interpreter.get_contextual_state"] ∧
    Gen.Memorable.stateCall =
      [("name", "key"), ("parent", "kwargs.get('parent', None)"), ("reset_every_iteration", "False"),
       ("make_state_func", "lambda: func(self, *args, **kwargs)")] := by
  decide

/-- `get_contextual_state`: stored value if present (and the parent unchanged), else make and store -/
theorem memo_state_pin :
    Gen.MemoState.stateBody =
      ["assert not reset_every_iteration", "current_context = self.current_context",
       "uniq_name = name or current_context.unique_context_identifier",
       "if parent: ;     parent_obj = current_context.field_vars().get(parent) ; else: ;     parent_obj = None",
       "current_parent, value = self.instance_states.get(uniq_name, (None, None))",
       "if current_parent != parent_obj or value is None: ;     value = make_state_func() ;     self.instance_states[uniq_name] = [parent_obj, value]",
       "return value"] := rfl

/-- the context identifier of a memorable call is the identity of the parsed value object — a
    `StructuredValue` fixes it when it is constructed, a `SimpleValue` (formula) sets it while it
    renders and restores the previous one afterwards -/
theorem call_site_identity_pin :
    Gen.CallSite.contextIdentifier =
      [("SimpleValue", "context.unique_context_identifier = str(id(self))"),
       ("SimpleValue", "context.unique_context_identifier = old_context_identifier"),
       ("StructuredValue", "self.unique_context_identifier = str(id(self))"),
       ("StructuredValue", "context.unique_context_identifier = self.unique_context_identifier")] := by
  decide

/-- `include_macro` looks the macro up, checks for cycles and then *parses* its inclusions,
    fields and friends — every time it is called (`includeMacro` in the model): no stored result -/
theorem macro_expansion_pin :
    Gen.MacroParse.includeMacroSteps =
      ["macro = context.macros.get(name)", "if not macro", "parsed_macro = parse_element(...)",
       "if name not in parent_macros and name in context.macros_being_expanded",
       "if name in parent_macros", "fields = []", "friends = []",
       "context.macros_being_expanded.append(name)",
       "try: parse_inclusions(macro, fields, friends, context, parent_macros + (name,)) ; fields.extend(parse_fields(parsed_macro.fields or {}, context)) ; friends.extend(parse_friends(parsed_macro.friends or [], context))",
       "return (_dedupe_field_list(fields), friends)"] := rfl

/-- start: string → precision from its characters; `datetime` → datetime; `date` → date -/
theorem start_pin :
    Gen.Schedule.startTests =
      ["isinstance(start_date, str)", "isinstance(start_date, datetime)", "isinstance(start_date, date)",
       "not start_date", "not start_date.tzinfo"] ∧
    Gen.Schedule.isDatetimeChars = ["bool(set(dt).intersection(' TZ+:'))"] ∧
    Gen.Schedule.precisionDispatch =
      ["precision is date -> self.next = self._next_date",
       "precision is datetime -> self.next = self._next_datetime"] := by
  decide

/-- frequency and weekday names (`Freq`, `WDay.wd` = index in this list), sub-daily gate, `wkst` -/
theorem names_pin :
    Gen.Schedule.freqNames = ["YEARLY", "MONTHLY", "WEEKLY", "DAILY", "HOURLY", "MINUTELY", "SECONDLY"] ∧
    Gen.Schedule.weekdayNames = ["MO", "TU", "WE", "TH", "FR", "SA", "SU"] ∧
    Gen.Schedule.freqHow = ["frequency: getattr(rrule_mod, frequency)", "day: getattr(rrule_mod, day)"] ∧
    Gen.Schedule.subDailyFreqs = ["rrule_mod.HOURLY", "rrule_mod.MINUTELY", "rrule_mod.SECONDLY"] ∧
    Gen.Schedule.wkstExpr = [Kw.constSU.name] ∧ wkst = 6 := by
  decide

/-- the output paths modelled by `emit` -/
theorem output_paths_pin :
    Gen.Schedule.nextDate = ["val: datetime = next(self.iterator)", "return val.date()"] ∧
    Gen.Schedule.nextDatetime = ["return next(self.iterator)"] ∧
    Gen.Schedule.iterReturn = ["return iter(self.ruleset)"] := by
  decide

/-- weekday syntax `MO`, `MO(+1)`, `WE(-2)` -/
theorem weekday_syntax_pin :
    Gen.Schedule.parseWeekday = ["WEEKDAYS[day.upper().strip()]", "offset -> dayconst = dayconst(offset)"] ∧
    Gen.Schedule.weekdaySplit =
      ["days = [self._parse_weekday(day) for day in weekdays]", "weekdays = byweekday.split(',')"] := by
  decide

/-- `process_list_of_ints`: None → None (not supplied), int → [int], "a,b" → ints, list → ints -/
theorem int_list_pin :
    Gen.Schedule.intListBranches =
      [("val is None", "None"), ("isinstance(val, int)", "[val]"),
       ("isinstance(val, str)", "[int(v) for v in val.split(',')]"),
       ("isinstance(val, (list, tuple))", "[int(v) for v in val]"), ("else", "raise")] := by
  decide

end SnowModel.Props.C15Bridge
