/-
C03 — bridging lemmas: the pieces of the real interpreter that `Core/L2.lean` mirrors still have
exactly the shape the model was written against (regenerated from the AST on every run).
-/
import SnowModel.Core.L2
import SnowModel.Generated.Runtime
import SnowModel.Generated.ObjectModel
import SnowModel.Generated.TemplateUtils

namespace SnowModel.Props.C03Bridge
open SnowModel.L2

/-- `L2.lookupName`: variables, then the current row's fields, then object names, then options,
    then the built-ins `id/count/child_index/this` — the reverse of the override order of
    `EvaluationNamespace.simple_field_vars` (plugin libraries and `today/now/fake/template` are
    `reservedNames`, outside the fragment). -/
theorem fieldVars_order :
    Gen.Runtime.fieldVarsOrder = ["id", "count", "child_index", "this", "today", "now", "fake", "template", "**interpreter.options", "**interpreter.globals.object_names", "**obj._values if obj else {}", "**interpreter.plugin_function_libraries", "**self.runtime_context.variable_definitions()"] := rfl

/-- `L2.execTemplate` / `execRows`: child context, `count` (default 1) or `for_each`, one
    `_generate_row` per index with `child_index` registered as a variable; returns the last row. -/
theorem generateRows_body :
    Gen.ObjectModel.generateRowsBody = ["rc = None", "with parent_context.child_context(self) as context:\n    if self.for_each_expr:\n        iterators = [self._evaluate_for_each(context)]\n        iterators.append(LoopIterator('child_index', itertools.count()))\n    else:\n        iterators = [LoopIterator('child_index', iter(range(self._evaluate_count(context))))]\n    with self.exception_handling(f'Cannot generate {self.name}'):\n        master_iterator = zip(*(it.iterator for it in iterators))\n        iterator_names = [it.name for it in iterators]\n        for i, next_value_list in enumerate(master_iterator):\n            for name, value in zip(iterator_names, next_value_list):\n                context.interpreter.register_variable(name, value)\n            rc = self._generate_row(output_stream, context, i)", "return rc"] := rfl

/-- `L2.countOf`: `int(float(·))`, default 1 -/
theorem evaluateCount_returns :
    Gen.ObjectModel.evaluateCountReturns = ["1", "int(float(cast(str, self.count_expr.render(context))))"] := rfl

/-- `L2.execRow`: id, registration before the fields, fields, history, output (unless hidden table,
    hidden fields filtered), friends with `continuing = True`. -/
theorem generateRow_body :
    Gen.ObjectModel.generateRowBody = ["id = context.generate_id(self.nickname)", "row = {'id': id}", "if self.update_key:\n    row['_sf_update_key'] = self.update_key", "sobj = ObjectRow(self.tablename, row, index)", "context.register_object(sobj, self.nickname, self.just_once)", "self._generate_fields(context, row)", "context.remember_row(self.tablename, self.nickname, row)", "with self.exception_handling('Cannot write row'):\n    if not self.tablename.startswith('__'):\n        output_stream.write_row(self.tablename, context.filter_row_values(row))", "context.interpreter.loop_over_templates_once(self.friends, True)", "return sobj"] := rfl

/-- `L2.execFields`: in declaration order, value stored under the field's name before the next
    field is evaluated. -/
theorem generateFields_body :
    Gen.ObjectModel.generateFieldsBody = ["for field in self.fields:\n    with self.exception_handling('Problem rendering value'):\n        value = field.generate_value(context)\n        if isinstance(value, PluginResultIterator):\n            try:\n                value = value.next()\n            except StopIteration:\n                raise DataGenError('Could not generate enough values to create rows', self.filename, self.line_num)\n        row[field.name] = value\n        self._check_type(field, row[field.name], context)"] := rfl

/-- `L2.execStmts`, `.var`: evaluated in a child context, registered in the enclosing one. -/
theorem varExecute_body :
    Gen.ObjectModel.varExecuteBody = ["with parent_context.child_context(self) as context:\n    name = self.varname\n    value = self.evaluate(context)", "interp.register_variable(name, value)"] := rfl

/-- `L2.execStmts`, `.obj`: skipped iff `just_once and continuing`. -/
theorem templateExecute_body :
    Gen.ObjectModel.templateExecuteBody = ["should_skip = self.just_once and continuing", "if not should_skip:\n    self.generate_rows(interp.output_stream, interp.current_context)"] := rfl

/-- `L2.renderFd` / `renderTmpl`: non-string definitions are returned as they are; strings are
    rendered and, in the v2 dialect only, passed through `look_for_number`. -/
theorem simpleValue_render :
    Gen.ObjectModel.simpleValueRender = ["old_context_identifier = context.unique_context_identifier", "context.unique_context_identifier = str(id(self))", "evaluator = self.evaluator(context)", "if evaluator:\n    try:\n        val = evaluator(context)\n        if hasattr(val, 'render'):\n            val = val.render()\n    except jinja2.exceptions.UndefinedError as e:\n        raise DataGenNameError(e.message, self.filename, self.line_num) from e\n    except Exception as e:\n        raise DataGenValueError(str(e), self.filename, self.line_num) from e\nelse:\n    val = self.definition", "context.unique_context_identifier = old_context_identifier", "if isinstance(val, str) and (not context.interpreter.native_types):\n    val = look_for_number(val)", "return val"] := rfl

/-- `L2.lookForNumber` -/
theorem lookForNumber_body :
    Gen.TemplateUtils.lookForNumberBody = ["looks_like_float = False", "if len(arg) == 0 or (arg[0] == '0' and arg[1:2] != '.'):\n    return arg", "for char in arg:\n    if char not in number_chars:\n        return arg\n    if char == '.':\n        if looks_like_float:\n            return arg\n        else:\n            looks_like_float = True", "if looks_like_float:\n    return float(arg)\nelse:\n    return int(arg)"] := rfl

theorem numberChars_def : Gen.TemplateUtils.numberChars = "set(string.digits + '.')" := rfl

end SnowModel.Props.C03Bridge
