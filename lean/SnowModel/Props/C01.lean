/-
C01 — row ids are unique and dense per table across iterations and continuations.
Property theorems over the L1 machine (`Core/IdMachine.lean`), for arbitrary operation lists
(which over-approximate every recipe, every iteration count and every continuation split).
Statements are fixed; helper lemmas live in `Proofs/L1.lean`.
-/
import SnowModel.Core.IdMachine
import SnowModel.Proofs.L1

namespace SnowModel.Props.C01
open SnowModel.IdMachine

/-- `nicknames_and_tables` is a dict: its keys are unique. -/
def WfNames (names : List (Name × Name)) : Prop := (names.map Prod.fst).Nodup

/-- ids issued for a table so far: given to created rows, or reserved in an ALLOCATED slot. -/
def issued (s : St) (T : Name) : List Nat := createdIds s T ++ allocIds s T

/-- The id-allocation invariant: for every table the issued ids are exactly `1 .. lastUsed`,
    each once. -/
def Good (s : St) : Prop := ∀ T, (issued s T).Perm (List.range' 1 (s.lastUsed T))

theorem init_good (names : List (Name × Name)) : Good (init names) := by
  exact init_goodP names

/-- One step preserves the invariant (any op, any arguments — including nicknames shared between
    tables or equal to another table's name). -/
theorem step_good (s s' : St) (op : Op) (o : Obs) (hw : WfNames s.names) (h : Good s)
    (hs : step s op = .ok (s', o)) : Good s' ∧ s'.names = s.names := by
  exact step_goodP s s' op o hw h hs

/-- Every reachable state satisfies the invariant. -/
theorem run_good (names : List (Name × Name)) (hw : WfNames names) (ops : List Op) (s : St)
    (obs : List Obs) (hr : run (init names) ops = .ok (s, obs)) : Good s ∧ s.names = names := by
  exact run_goodP names hw ops s obs hr

/-- **No id is issued twice** — at every moment of every run, not only at boundaries. -/
theorem C01_unique (names : List (Name × Name)) (hw : WfNames names) (ops : List Op) (s : St)
    (obs : List Obs) (hr : run (init names) ops = .ok (s, obs)) (T : Name) :
    (createdIds s T).Nodup := by
  have hg := (run_goodP names hw ops s obs hr).1 T
  have hnd : (createdIds s T ++ allocIds s T).Nodup :=
    hg.nodup_iff.2 (List.nodup_range' (step := 1) (by decide))
  exact (List.nodup_append.1 hnd).1

/-- After a successful end of iteration (or save/load) no slot holds a reserved id. -/
theorem boundary_no_alloc (s s' : St) (o : Obs) (op : Op) (hop : op = .endIteration ∨ op = .saveLoad)
    (hs : step s op = .ok (s', o)) (T : Name) : allocIds s' T = [] := by
  rcases hop with rfl | rfl
  · simp only [step] at hs
    split at hs
    · cases hs
      exact allocL_unused _ T
    · cases hs
  · simp only [step] at hs
    split at hs
    · cases hs
    · cases hs
      exact allocL_unused _ T

/-- **Dense at every successful boundary**: whenever an iteration (or a whole run, followed by a
    continuation load) completes successfully, the ids of the rows created for each table since the
    beginning of the dataset are exactly `1 .. n`, `n` = number of rows of that table — for any
    number of iterations and any placement of continuation boundaries in `ops`. -/
theorem C01_dense (names : List (Name × Name)) (hw : WfNames names) (ops : List Op) (last : Op)
    (hlast : last = .endIteration ∨ last = .saveLoad) (s : St) (obs : List Obs)
    (hr : run (init names) (ops ++ [last]) = .ok (s, obs)) (T : Name) :
    (createdIds s T).Perm (List.range' 1 (createdIds s T).length)
    ∧ s.lastUsed T = (createdIds s T).length := by
  obtain ⟨s1, os1, os2, h1, h2⟩ := run_append_ok hr
  obtain ⟨o, hst⟩ := run_single_ok h2
  obtain ⟨hg1, hn1⟩ := run_goodP names hw ops s1 os1 h1
  have hg := (step_goodP s1 s last o (hn1 ▸ hw) hg1 hst).1 T
  rw [boundary_no_alloc s1 s o last hlast hst T, List.append_nil] at hg
  have hlen : (createdIds s T).length = s.lastUsed T := by
    simpa using hg.length_eq
  rw [hlen]
  exact ⟨hg, rfl⟩

/-- A reserved id that is never used makes the iteration fail (so a gap is never committed). -/
theorem C01_unfulfilled_aborts (s : St) (n : Name) (i : Nat) (t : Name)
    (hn : (n, t) ∈ s.names) (ha : s.slot n = .alloc i) :
    ∃ l, step s .endIteration = .error (.unfulfilled l) ∧ n ∈ l := by
  have hm : n ∈ notFilled s := mem_notFilled hn ha
  simp only [step]
  split
  · rename_i he
    rw [he] at hm
    cases hm
  · exact ⟨_, rfl, hm⟩

/-- **A continuation resumes numbering immediately after the highest recorded id.** -/
theorem C01_resume (s s' : St) (o : Obs) (hs : step s .saveLoad = .ok (s', o)) (T : Name) :
    s'.lastUsed T = s.lastUsed T ∧ s'.startIds T = some (s.lastUsed T + 1) ∧ s'.created = s.created
    ∧ (∀ nick j, ∃ s'' , step s' (.create T nick j) = .ok (s'', .id (s.lastUsed T + 1))) := by
  simp only [step] at hs
  split at hs
  · cases hs
  · cases hs
    refine ⟨rfl, rfl, rfl, ?_⟩
    intro nick j
    generalize hS : ({ resetSlots s with startIds := fun t => some (s.lastUsed t + 1) } : St) = S
    have hsl : ∀ n, S.slot n = .unused := by subst hS; intro n; rfl
    have hlu : S.lastUsed T = s.lastUsed T := by subst hS; rfl
    rw [step_create]
    refine ⟨createSt S T nick j, ?_⟩
    congr 2
    rcases hg : generateId S T nick with ⟨s1, i⟩
    rcases generateId_cases hg with ⟨n, _, _, hsl', _⟩ | ⟨_, hi⟩
    · rw [hsl n] at hsl'
      cases hsl'
    · rw [hlu] at hi
      exact congrArg Obs.id hi

/-! ### Non-vacuity -/

/-- forward reference by nickname and by table name to the same table, nickname shared with a
    second table: the run completes and ids are dense. -/
example :
    (run (init [("n", "B"), ("A", "A"), ("B", "B"), ("C", "C")])
      [.lookup "n", .lookup "B", .create "A" none false, .create "C" (some "n") false,
       .create "B" (some "n") false, .create "B" none false, .endIteration]).toOption.map
      (fun r => (createdIds r.1 "B", createdIds r.1 "C", r.2))
      = some ([1, 2], [1],
          [.slot ⟨"B", 1⟩, .slot ⟨"B", 2⟩, .id 1, .id 1, .id 1, .id 2, .ok]) := by
  decide

example : WfNames [("n", "B"), ("A", "A"), ("B", "B"), ("C", "C")] := by unfold WfNames; decide

end SnowModel.Props.C01
