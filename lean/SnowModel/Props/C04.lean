/-
C04 — stop-and-continue is invisible.
(1) L1: for every operation sequence, inserting a continuation save/load at an iteration boundary
    changes no observation and no later behaviour of the id / slot / registry machine.
(2) L2: running a+b iterations in one run is running a iterations and then b more from the state
    and top-level context reached (the part of the claim that does not involve the file), and what a
    continuation drops is made explicit (`saveLoad`).
The full recipe-level equality for the real code (incl. what the file does not carry) is decided by
the differential and by the split-vs-unsplit oracle of the harness.
-/
import SnowModel.Core.IdMachine
import SnowModel.Core.L2
import SnowModel.Proofs.L1
import SnowModel.Proofs.L2
import SnowModel.Proofs.C04

namespace SnowModel.Props.C04
open SnowModel.IdMachine

/-- Two machine states agree on everything later operations can observe (all components except
    `startIds`, which no operation of the machine reads). -/
def Same (s t : St) : Prop :=
  s.names = t.names ∧ s.lastUsed = t.lastUsed ∧ s.slot = t.slot ∧ s.pNick = t.pNick ∧
  s.pTable = t.pTable ∧ s.nickObjs = t.nickObjs ∧ s.lastSeen = t.lastSeen ∧
  s.created = t.created ∧ s.handedOut = t.handedOut

theorem same_refl (s : St) : Same s s := by
  exact sameP_refl s

/-- steps from states that agree give the same observation (or the same error) and states that
    agree again -/
theorem step_same (s t : St) (op : Op) (h : Same s t) :
    (∀ s1 o, step s op = .ok (s1, o) → ∃ t1, step t op = .ok (t1, o) ∧ Same s1 t1)
    ∧ (∀ e, step s op = .error e → step t op = .error e) := by
  exact step_sameP s t op h

theorem run_same (s t : St) (ops : List Op) (h : Same s t) :
    (∀ s1 os, run s ops = .ok (s1, os) → ∃ t1, run t ops = .ok (t1, os) ∧ Same s1 t1)
    ∧ (∀ e, run s ops = .error e → run t ops = .error e) := by
  exact run_sameP s t ops h

/-- right after a successful end of iteration, saving and loading changes nothing observable -/
theorem saveLoad_at_boundary (s s1 : St) (o : Obs) (he : step s .endIteration = .ok (s1, o)) :
    ∃ s2, step s1 .saveLoad = .ok (s2, .ok) ∧ Same s1 s2 := by
  exact saveLoad_at_boundaryP s s1 o he

/-- **Split = unsplit, for every operation sequence**: a run that is stopped after an iteration
    boundary and continued from its continuation file makes exactly the observations of the
    uninterrupted run (ids, lookups, errors), completes iff the uninterrupted run completes, and
    ends in an equivalent state — wherever the cut is placed and however often it is repeated
    (apply the theorem again to `ops2`). -/
theorem split_invisible (s0 : St) (ops1 ops2 : List Op) :
    (∀ s os, run s0 (ops1 ++ [.endIteration] ++ ops2) = .ok (s, os) →
        ∃ s' os1 os2, run s0 (ops1 ++ [.endIteration, .saveLoad] ++ ops2) = .ok (s', os1 ++ [.ok] ++ os2)
          ∧ os = os1 ++ os2 ∧ os1.length = ops1.length + 1 ∧ Same s s')
    ∧ (∀ e, run s0 (ops1 ++ [.endIteration] ++ ops2) = .error e →
        run s0 (ops1 ++ [.endIteration, .saveLoad] ++ ops2) = .error e) := by
  exact split_invisibleP s0 ops1 ops2

/-! ### L2 -/
open SnowModel.L2 in
/-- `a + b` iterations of one run = `a` iterations, then `b` more from the state and the top-level
    context reached (`a ≥ 1`, so the second part runs with `continuing = true`, as a continued run
    does). -/
theorem iterations_add (fuel : Nat) (r : SnowModel.L2.Recipe) (a b : Nat) (ha : 0 < a)
    (c : SnowModel.L2.Ctx) (cont : Bool) (s : SnowModel.L2.St) :
    SnowModel.L2.iterations fuel r (a + b) c cont s =
      (match SnowModel.L2.iterations fuel r a c cont s with
       | .error e => .error e
       | .ok (c1, s1) => SnowModel.L2.iterations fuel r b c1 true s1) := by
  obtain ⟨k, rfl⟩ : ∃ k, a = k + 1 := ⟨a - 1, by omega⟩
  exact SnowModel.L2.iterations_add_succ fuel r k b c cont s

open SnowModel.L2 in
/-- what the continuation file does not carry, made explicit: `saveLoad` keeps the id counters,
    the persistent bindings, the name table and the output; it empties the per-iteration
    bindings and slots and drops row-valued fields of stored rows. -/
theorem saveLoad_keeps (s : SnowModel.L2.St) :
    (SnowModel.L2.saveLoad s).lastUsed = s.lastUsed ∧ (SnowModel.L2.saveLoad s).pNick = s.pNick ∧
    (SnowModel.L2.saveLoad s).pTable = s.pTable ∧ (SnowModel.L2.saveLoad s).names = s.names ∧
    (SnowModel.L2.saveLoad s).out = s.out ∧ (SnowModel.L2.saveLoad s).options = s.options ∧
    (SnowModel.L2.saveLoad s).nick = [] ∧ (SnowModel.L2.saveLoad s).seen = [] := by
  simp [SnowModel.L2.saveLoad]

/-! ### Non-vacuity -/
example :
    (run (init [("B", "B"), ("A", "A")])
      ([.lookup "B", .create "A" none false, .create "B" none false] ++ [.endIteration, .saveLoad]
        ++ [.create "A" none false, .lookup "A", .endIteration])).toOption.map (·.2)
    = some [.slot ⟨"B", 1⟩, .id 1, .id 1, .ok, .ok, .id 2, .row ⟨"A", 2⟩, .ok] := by decide

end SnowModel.Props.C04
