/-
C19 — runs in one process are independent of each other.

All statements quantify over *every* interaction tree `Prog` (every recipe, option set and
continuation, as far as they reach process state only through the pinned operations), every
process state and every sequence of predecessor runs, failing ones included.
-/
import SnowModel.Core.Proc
import SnowModel.Proofs.C19

namespace SnowModel.Props.C19
open SnowModel.Proc

/-! ## 1. The frame theorem (cell level) -/

/-- **frame**: what a run emits, and whether it fails, is a function of the program and of the cells
    it reads before overwriting them.  Two process states that agree on those cells are
    indistinguishable for the run. -/
theorem frame (p : Prog) : ∀ a b : St, (∀ cell, Reads cell p → Agree cell a b) → (run a p).out = (run b p).out := by
  induction p with
  | done => intro a b _; rfl
  | fail m => intro a b _; rfl
  | emit r p ih =>
    intro a b h
    have := ih a b (fun cell hr => h cell (.emit hr))
    simp only [run, Result.out, Prod.mk.injEq] at this ⊢
    exact ⟨by rw [this.1], this.2⟩
  | op o k ih =>
    intro a b h
    have hr : ∀ cell ∈ readsOf o, Agree cell a b := fun cell hc => h cell (.here hc)
    simp only [run]
    rw [step_obs_agree a b o hr]
    apply ih
    intro cell hread
    by_cases hw : cell ∈ writesOf o
    · exact step_agree_written a b o hr cell hw
    · exact step_agree_unwritten a b o cell hw (h cell (.later _ hw hread))

/-- a program that reads no cell at all behaves the same in every process state -/
theorem frame_reads_nothing (p : Prog) (h : ∀ cell, ¬ Reads cell p) (a b : St) : (run a p).out = (run b p).out :=
  frame p a b (fun cell hr => absurd hr (h cell))

/-- non-vacuity: a run that sets the ContextVar, reads it back and emits two rows reads no cell,
    although it *writes* one -/
example : ∀ cell, ¬ Reads cell (.op (.setHistory 7) (fun _ => .op .getHistory (fun _ => .emit "r1" (.emit "r2" .done)))) := by
  intro cell h
  cases h with
  | here hc => simp [readsOf] at hc
  | later obs hw h2 =>
    cases h2 with
    | here hc => simp only [readsOf, List.mem_singleton] at hc; subst hc; simp [writesOf] at hw
    | later obs2 hw2 h3 =>
      cases h3 with
      | emit h4 => cases h4 with | emit h5 => cases h5

/-! ## 2. failed_run_frame: a run — completed or failed anywhere — changes only the cells it touches -/

/-- **failed_run_frame**: whatever path a run takes and wherever it stops (`fail` nodes are leaves
    like `done`), a cell that no operation on any of its paths writes has the value it had before. -/
theorem failed_run_frame (cell : Cell) (p : Prog) : ∀ st : St, ¬ Touches cell p → Agree cell (run st p).st st := by
  induction p with
  | done => intro st _; cases cell <;> simp [Agree, run]
  | fail m => intro st _; cases cell <;> simp [Agree, run]
  | emit r p ih => intro st h; simpa [run] using ih st (fun ht => h (.emit ht))
  | op o k ih =>
    intro st h
    simp only [run]
    have hw : cell ∉ writesOf o := fun hw => h (.here hw)
    exact (ih _ _ (fun ht => h (.later _ ht))).trans' (step_unwritten st o cell hw)

/-- the only cells any operation can write are the ones listed by `writesOf`; in particular no run can
    change a cache it does not call, the counter without creating a generator, or the PRNG count
    without drawing -/
theorem touches_only_written (cell : Cell) (p : Prog) (h : Touches cell p) :
    ∃ o, cell ∈ writesOf o := by
  induction h with
  | emit _ ih => exact ih
  | here hw => exact ⟨_, hw⟩
  | later _ _ ih => exact ih

/-- non-vacuity: a failing run that looked a date up leaves the counter, the ContextVar, the working
    directory and the other caches alone -/
example : ¬ Touches .ctx (.op (.lookup .parseDate (.str "2024-01-01") (.date 19723)) (fun _ => .fail "boom")) := by
  intro h
  cases h with
  | here hw => simp [writesOf] at hw
  | later obs h2 => cases h2

/-! ## 3. Deterministic recipes: identical output whatever ran before -/

/-- **frame_deterministic**: a program that creates no unique-id generator, draws nothing and reads
    no clock, whose cached calls are pure on keys satisfying `P` and which looks at the returned objects
    only through the view `V`, produces the same output in any two process states whose caches are
    consistent with those pure functions — the caches may differ arbitrarily (hits instead of misses,
    evictions, other recency order, entries stored under another Python-equal key). -/
theorem frame_deterministic (F : CacheId → Key → Val) (P : CacheId → Key → Bool) (V : CacheId → Val → Val)
    (hcomp : Compat F P V) (p : Prog) (hd : Det F P V false p) (a b : Proc)
    (ha : Consistent F P a) (hb : Consistent F P b) (hs : a.settings = b.settings) :
    (run { proc := a, dirs := [] } p).out = (run { proc := b, dirs := [] } p).out :=
  det_core F P V hcomp hd _ _ ha hb rfl (by intro h; cases h) hs

/-- runs without a setter leave the process-wide settings of other modules as they were, over any sequence -/
theorem settings_kept_runAll (ps : List Prog) (hk : ∀ q ∈ ps, KeepsSettings q) :
    ∀ st : St, (runAll st ps).proc.settings = st.proc.settings := by
  induction ps with
  | nil => intro st; rfl
  | cons p ps ih =>
    intro st
    simp only [runAll]
    rw [ih (fun q hq => hk q (List.mem_cons_of_mem _ hq))]
    exact settings_kept (hk p List.mem_cons_self) _

/-- keys that are not aware datetimes are compared by identity: *every* function is compatible, under
    the identity view -/
theorem compat_not_aware (F : CacheId → Key → Val) : Compat F (fun _ k => !k.isAware) (fun _ => id) := by
  intro c a b hb he
  cases b <;> cases a <;> simp_all [Key.pyEq, Key.isAware]

/-- since commit f914bf1 `datetime:` with the default zone yields the same value for every object the
    cache may serve for one instant: converting (`astimezone`) and relabelling a UTC value coincide -/
theorem datetime_default_zone_alias_free (i o o' : Int) :
    datetimeFn (some 0) (.aware i o) = datetimeFn (some 0) (.aware i o') := by
  simp only [datetimeFn]
  split <;> split <;> simp_all <;> omega

/-- today's views and key sets are compatible with every library behaviour `F` that returns aware
    datetimes unchanged (which is what `parse_datetimespec` does: `specF`) -/
theorem compat_std (F : CacheId → Key → Val)
    (hspec : ∀ i o, F .parseDatetimespec (.aware i o) = .aware i o) : Compat F stdP stdV := by
  intro c a b hb he
  cases c with
  | parseDatetimespec =>
    refine ⟨rfl, ?_⟩
    cases b <;> cases a <;> simp_all [Key.pyEq]
    rename_i i o j o'
    simp only [stdV]
    exact datetime_default_zone_alias_free _ _ _
  | parseDate => cases b <;> cases a <;> simp_all [Key.pyEq, Key.isAware, stdP, stdV]
  | randomizer => cases b <;> cases a <;> simp_all [Key.pyEq, Key.isAware, stdP, stdV]
  | maskForKey => cases b <;> cases a <;> simp_all [Key.pyEq, Key.isAware, stdP, stdV]
  | importModule => cases b <;> cases a <;> simp_all [Key.pyEq, Key.isAware, stdP, stdV]

/-- the fresh process is consistent with every `F` -/
theorem fresh_consistent (F : CacheId → Key → Val) (P : CacheId → Key → Bool) : Consistent F P fresh.proc := by
  intro c e he; simp [fresh] at he

/-- consistency survives any tame run, completed or failed -/
theorem consistent_after_run (F : CacheId → Key → Val) (P : CacheId → Key → Bool) (p : Prog) (ht : Tame F P p)
    (st : St) (h : Consistent F P st.proc) : Consistent F P (run st p).st.proc :=
  consistent_run F P p ht st h

theorem consistent_runAll (F : CacheId → Key → Val) (P : CacheId → Key → Bool) (ps : List Prog)
    (ht : ∀ p ∈ ps, Tame F P p) : ∀ st : St, Consistent F P st.proc → Consistent F P (runAll st ps).proc := by
  induction ps with
  | nil => intro st h; exact h
  | cons p ps ih =>
    intro st h
    simp only [runAll]
    apply ih (fun q hq => ht q (List.mem_cons_of_mem _ hq))
    exact consistent_run F P p (ht p List.mem_cons_self) _ h

/-- **runs_independent**: after *any* sequence of earlier runs in the same process — arbitrary
    programs: unique ids, random draws, clock reads, failures at any point — a deterministic program
    produces exactly the output it produces in a fresh process.  The only requirement on the
    predecessors is that the functions behind the caches are pure on the keys `P` that deterministic
    programs use. -/
theorem runs_independent (F : CacheId → Key → Val) (P : CacheId → Key → Bool) (V : CacheId → Val → Val)
    (hcomp : Compat F P V) (ps : List Prog) (ht : ∀ q ∈ ps, Tame F P q) (hk : ∀ q ∈ ps, KeepsSettings q)
    (p : Prog) (hd : Det F P V false p) :
    (run { proc := (runAll fresh ps).proc, dirs := [] } p).out = (run fresh p).out :=
  frame_deterministic F P V hcomp p hd _ _ (consistent_runAll F P ps ht fresh (fresh_consistent F P))
    (fresh_consistent F P) (settings_kept_runAll ps hk fresh)

/-- **failed_run_does_not_poison**: the special case the property statement names — one failed run,
    then the recipe. -/
theorem failed_run_does_not_poison (F : CacheId → Key → Val) (P : CacheId → Key → Bool) (V : CacheId → Val → Val)
    (hcomp : Compat F P V) (bad : Prog) (hbad : Tame F P bad) (hkeep : KeepsSettings bad)
    (_hfails : (run fresh bad).ok = false) (p : Prog) (hd : Det F P V false p) :
    (run { proc := (run fresh bad).st.proc, dirs := [] } p).out = (run fresh p).out := by
  have := runs_independent F P V hcomp [bad] (by intro q hq; simp at hq; subst hq; exact hbad)
    (by intro q hq; simp at hq; subst hq; exact hkeep) p hd
  simpa [runAll, fresh] using this

/-- for recipes whose cached calls never see an aware datetime no assumption on the library functions
    is left: *any* `F` will do, and the program may inspect the returned objects as it likes -/
theorem runs_independent_not_aware (F : CacheId → Key → Val)
    (ps : List Prog) (ht : ∀ q ∈ ps, Tame F (fun _ k => !k.isAware) q) (hk : ∀ q ∈ ps, KeepsSettings q) (p : Prog)
    (hd : Det F (fun _ k => !k.isAware) (fun _ => id) false p) :
    (run { proc := (runAll fresh ps).proc, dirs := [] } p).out = (run fresh p).out :=
  runs_independent F _ _ (compat_not_aware F) ps ht hk p hd

/-- **runs_independent_std** — the strength that is true for the code since commit f914bf1: aware
    datetimes of any offset may go through `parse_datetimespec` as long as the result is used the way
    `datetime:` (default zone) uses it; only `parse_date` (`date:`, `date_between`, Counters, Schedule)
    must not be keyed by aware datetimes. -/
theorem runs_independent_std (F : CacheId → Key → Val)
    (hspec : ∀ i o, F .parseDatetimespec (.aware i o) = .aware i o)
    (ps : List Prog) (ht : ∀ q ∈ ps, Tame F stdP q) (hk : ∀ q ∈ ps, KeepsSettings q)
    (p : Prog) (hd : Det F stdP stdV false p) :
    (run { proc := (runAll fresh ps).proc, dirs := [] } p).out = (run fresh p).out :=
  runs_independent F stdP stdV (compat_std F hspec) ps ht hk p hd

/-- a continuation that may look at the whole object (identity view) is invariant -/
theorem view_id_invariant {V : CacheId → Val → Val} {c : CacheId} (hV : ∀ v, V c v = v) (kont : Obs → Prog)
    (o o' : Obs) (h : o.view (V c) = o'.view (V c)) : kont o = kont o' := by
  have e : ∀ x : Obs, x.view (V c) = x := by intro x; cases x <;> simp [Obs.view, hV]
  rw [e, e] at h; rw [h]

/-- non-vacuity: a deterministic program that looks a date string up, enters and leaves a dataset
    directory and emits what it got -/
def demoDet (F : CacheId → Key → Val) : Prog :=
  .op (.setHistory 1) (fun _ =>
    .op (.lookup .parseDate (.str "2024-01-01") (F .parseDate (.str "2024-01-01"))) (fun o =>
      .op (.enterDir "/data") (fun _ => .op .leaveDir (fun _ =>
        .emit (match o with | .val (.date _) => "date" | _ => "other") .done))))

example (F : CacheId → Key → Val) : Det F stdP stdV false (demoDet F) :=
  .setHistory (fun _ => .lookup rfl rfl (view_id_invariant (fun _ => rfl) _)
    (fun _ => .enterDir (fun _ => .leaveDir (fun _ => .emit .done))))

/-- non-vacuity of the view: `datetime: <aware datetime>` as the code evaluates it — look the argument
    up, convert to the default zone, emit the result -/
def datetimeField (i o : Int) : Prog :=
  .op (.lookup .parseDatetimespec (.aware i o) (.aware i o)) (fun obs =>
    match obs.view (datetimeFn (some 0)) with
    | .val (.aware j _) => .emit (if j = i then "the written instant" else "another instant") .done
    | _ => .emit "?" .done)

theorem datetimeField_det (i o : Int) : Det specFD stdP stdV false (datetimeField i o) := by
  refine .lookup rfl rfl ?_ ?_
  · intro a b h
    show (match a.view (datetimeFn (some 0)) with | .val (.aware j _) => _ | _ => _)
       = (match b.view (datetimeFn (some 0)) with | .val (.aware j _) => _ | _ => _)
    have : a.view (stdV .parseDatetimespec) = a.view (datetimeFn (some 0)) := rfl
    rw [← this, h]; rfl
  · intro obs
    show Det specFD stdP stdV false (match obs.view (datetimeFn (some 0)) with | .val (.aware j _) => _ | _ => _)
    split <;> exact .emit .done

/-- hence: whatever offsets earlier runs used for the same instant, `datetime:` emits the written instant -/
theorem datetime_field_independent (i o : Int) (ps : List Prog) (ht : ∀ q ∈ ps, Tame specFD stdP q)
    (hk : ∀ q ∈ ps, KeepsSettings q) :
    (run { proc := (runAll fresh ps).proc, dirs := [] } (datetimeField i o)).out = (run fresh (datetimeField i o)).out :=
  runs_independent_std specFD (fun _ _ => rfl) ps ht hk _ (datetimeField_det i o)

/-! ### Full strength for the code as it is since commit 885750c: any key for the date functions -/

/-- the predicate under which the raw theorem is applied: after 885750c no aware datetime reaches a cache -/
abbrev notAware : CacheId → Key → Bool := fun _ k => !k.isAware

/-- the identity view: every continuation is invariant -/
theorem id_view_invariant (kont : Obs → Prog) (o o' : Obs) (h : o.view id = o'.view id) : kont o = kont o' := by
  rw [Obs.view_id, Obs.view_id] at h; rw [h]

theorem tameC_tame {F : CacheId → Key → Val} {c : Code} (ht : TameC F c) : Tame F notAware (c.toProg true) := by
  induction ht with
  | done => exact .done
  | fail => exact .fail
  | emit _ ih => exact .emit ih
  | @parseDate k v kont hv _ ih =>
    simp only [Code.toProg]
    cases k <;> simp only [parseDateCall]
    case str s => exact .lookup (fun _ => hv s rfl) ih
    all_goals exact ih _
  | @parseDatetimespec k clk v kont hv _ ih =>
    simp only [Code.toProg]
    cases k <;> simp only [parseDatetimespecCall]
    case str s =>
      split
      · exact .other (by intro c k v e; cases e) (fun _ => ih _)
      · rename_i hne
        exact .lookup (fun _ => hv s rfl (fun e => hne (Or.inl e)) (fun e => hne (Or.inr e))) ih
    all_goals exact ih _
  | @cached c k v kont hv _ ih =>
    simp only [Code.toProg]
    exact .lookup (fun hP => hv (by simpa [notAware] using hP)) ih
  | op hne _ ih =>
    simp only [Code.toProg]
    exact .other hne ih

theorem detC_det {F : CacheId → Key → Val} {h : Bool} {c : Code} (hd : DetC F h c) :
    Det F notAware (fun _ => id) h (c.toProg true) := by
  induction hd with
  | done => exact .done
  | fail => exact .fail
  | emit _ ih => exact .emit ih
  | @parseDate h k v kont hv _ ih =>
    simp only [Code.toProg]
    cases k <;> simp only [parseDateCall]
    case str s => exact .lookup rfl (hv s rfl) (id_view_invariant _) ih
    all_goals exact ih _
  | @parseDatetimespec h k clk v kont hn ht hv _ ih =>
    simp only [Code.toProg]
    cases k <;> simp only [parseDatetimespecCall]
    case str s =>
      have h1 : ¬ (s = "now" ∨ s = "today") := by
        rintro (e | e)
        · exact hn (by rw [e])
        · exact ht (by rw [e])
      simp only [h1, if_false]
      exact .lookup rfl (hv s rfl) (id_view_invariant _) ih
    all_goals exact ih _
  | @cached h c k v kont hk hv _ ih =>
    simp only [Code.toProg]
    exact .lookup (by simp [notAware, hk]) hv (id_view_invariant _) ih
  | setHistory _ ih => simp only [Code.toProg]; exact .setHistory ih
  | getHistory _ ih => simp only [Code.toProg]; exact .getHistory ih
  | enterDir _ ih => simp only [Code.toProg]; exact .enterDir ih
  | leaveDir _ ih => simp only [Code.toProg]; exact .leaveDir ih
  | getSetting _ ih => simp only [Code.toProg]; exact .getSetting ih

/-- **runs_independent_full** — the property statement at full strength for the repaired code: after any
    sequence of earlier runs (arbitrary `Code`: unique ids, draws, clock, failures; dates given as strings,
    date objects, naive or aware datetimes of *any* offset) a deterministic run — again with *any* keys for
    `parse_date` / `parse_datetimespec` — emits exactly its fresh-process output, for every behaviour `F` of
    the libraries behind the caches.  The remaining hypotheses are the purity of the library calls on
    strings / ints / pairs (for the import cache that is exactly what D19d violates). -/
theorem runs_independent_full (F : CacheId → Key → Val) (ps : List Code) (ht : ∀ q ∈ ps, TameC F q)
    (hk : ∀ q ∈ ps, KeepsSettings (q.toProg true)) (p : Code) (hd : DetC F false p) :
    (run { proc := (runAll fresh (ps.map (Code.toProg true))).proc, dirs := [] } (p.toProg true)).out
      = (run fresh (p.toProg true)).out := by
  apply runs_independent F notAware (fun _ => id) (compat_not_aware F) _ _ _ _ (detC_det hd)
  · intro q hq
    obtain ⟨c, hc, rfl⟩ := List.mem_map.mp hq
    exact tameC_tame (ht c hc)
  · intro q hq
    obtain ⟨c, hc, rfl⟩ := List.mem_map.mp hq
    exact hk c hc

/-- **setting_write_leaks** — why `KeepsSettings` is a hypothesis: the settings vector is part of the frame.  A
    deterministic run may *read* a process-wide setting (the csv reader consults `csv.field_size_limit()`); a
    predecessor that raises it and does not restore it (update mode after the `field_size_limit` mutation) changes
    what the later run does: the over-long field is rejected in a fresh process and accepted after the update run. -/
theorem setting_write_leaks :
    let updateRun : Code := .op (.setSetting 0 16777216) (fun _ => .emit "updated row" .done)
    let bigCsv : Code := .op (.getSetting 0) (fun o =>
      match o with
      | .int lim => if lim < 140000 then .fail "field larger than field limit" else .emit "row" .done
      | _ => .fail "?")
    DetC (fun _ k => k) false bigCsv
    ∧ (run { proc := { settings := fun _ => 131072 }, dirs := [] } (bigCsv.toProg true)).out = ([], false)
    ∧ (run { proc := (run { proc := { settings := fun _ => 131072 }, dirs := [] } (updateRun.toProg true)).st.proc,
             dirs := [] } (bigCsv.toProg true)).out = (["row"], true) := by
  refine ⟨.getSetting ?_, by decide, by decide⟩
  intro o
  cases o with
  | int lim => simp only []; split <;> first | exact .fail | exact .emit .done
  | _ => exact .fail

/-- …and a run that contains no setter leaves every setting alone, wherever it stops (`failed_run_frame` for the
    settings cells follows from `Touches`; this is the sequence form used above) -/
theorem settings_frame (ps : List Prog) (hk : ∀ q ∈ ps, KeepsSettings q) (st : St) (i : Nat) :
    (runAll st ps).proc.settings i = st.proc.settings i := by
  rw [settings_kept_runAll ps hk st]

/-- a continuation that shows what came back -/
def showOffsetC : Obs → Code
  | .val (.aware _ o) => .emit (if o = 0 then "+00:00" else "other offset") .done
  | .val (.date d) => .emit (if d = 1 then "day 1" else "other day") .done
  | _ => .emit "?" .done

/-- `date: 1970-01-01 20:00:00-12:00` (instant 1920 min, offset −720: local day 0) -/
def primeDay : Code := .parseDate (.aware 1920 (-720)) (specFD .parseDate (.aware 1920 (-720))) showOffsetC
/-- `date: 1970-01-02 08:00:00+00:00` (the same instant, offset 0: local day 1) -/
def probeDay : Code := .parseDate (.aware 1920 0) (specFD .parseDate (.aware 1920 0)) showOffsetC

/-- non-vacuity: the former D19b witness is a deterministic run in the sense of the full theorem… -/
theorem probeDay_det (F : CacheId → Key → Val) : DetC F false probeDay ∧ TameC F primeDay := by
  constructor
  · refine .parseDate (by intro s e; cases e) ?_
    intro o; unfold showOffsetC; split <;> exact .emit .done
  · refine .parseDate (by intro s e; cases e) ?_
    intro o; unfold showOffsetC; split <;> exact .emit .done

/-- …and on the repaired code it emits its own calendar day after the `-12:00` spelling ran -/
theorem date_of_aware_datetime_independent :
    (run { proc := (runAll fresh [primeDay.toProg true]).proc, dirs := [] } (probeDay.toProg true)).out = (["day 1"], true)
    ∧ (run fresh (probeDay.toProg true)).out = (["day 1"], true) := by
  constructor <;> decide

/-- **old_behaviour_date_cache_aliased** (D19b, repaired by commit 885750c): with the whole function cached
    (`onlyStrings = false`) the same two runs gave the first spelling's calendar day -/
theorem old_behaviour_date_cache_aliased :
    (run fresh (probeDay.toProg false)).out = (["day 1"], true)
    ∧ (run { proc := (runAll fresh [primeDay.toProg false]).proc, dirs := [] } (probeDay.toProg false)).out
        = (["other day"], true) := by
  constructor <;> decide

/-- why caching datetimes was wrong: `parse_date` tells Python-equal keys apart (the calendar day depends on
    the offset) — a fact about the function and Python's key equality, no longer about the cache -/
theorem specFD_not_compat : ¬ Compat specFD (fun _ _ => true) stdV := by
  intro h
  have := (h .parseDate (.aware 1920 (-720)) (.aware 1920 0) rfl (by decide)).2
  exact absurd this (by decide)

theorem specFD_compat_std : Compat specFD stdP stdV := compat_std specFD (fun _ _ => rfl)

/-- `datetime:` with a non-default zone distinguishes the two spellings of one instant — harmless now that each
    call gets the object it passed -/
theorem datetime_other_zone_distinguishes :
    datetimeFn (some 300) (.aware 720 (-720)) ≠ datetimeFn (some 300) (.aware 720 0)
    ∧ datetimeFn none (.aware 720 (-720)) ≠ datetimeFn none (.aware 720 0) := by
  constructor <;> decide

/-- `now` is read from the clock on every call since 885750c (it used to be cached: D19) -/
theorem now_is_not_cached :
    let now (t : Int) : Code := .parseDatetimespec (.str "now") t (.aware t 0)
        (fun o => .emit (match o with | .val (.aware 100 _) => "t=100" | _ => "another instant") .done)
    (run { proc := (runAll fresh [(now 5).toProg true]).proc, dirs := [] } ((now 100).toProg true)).out = (["t=100"], true)
    ∧ (run { proc := (runAll fresh [(now 5).toProg false]).proc, dirs := [] } ((now 100).toProg false)).out
        = (["another instant"], true) := by
  constructor <;> decide

/-! ### what is still false for the code (defect D19d; interpretation D19) -/

/-- **import_cache_aliasing** (D19d): `sys.modules` is keyed by the module *name*, while a local plugin
    is resolved against the recipe's own `plugins/` directory — the value is not a function of the key,
    the purity hypothesis of `TameC.cached` / `DetC.cached` cannot hold for two recipes in different
    directories, and the second recipe runs the first one's module. -/
theorem import_cache_aliasing :
    let recipeA : Prog := .op (.lookup .importModule (.str "myplug") (.obj 1)) (fun _ => .done)
    let recipeB : Prog := .op (.lookup .importModule (.str "myplug") (.obj 2))
      (fun o => .emit (match o with | .val (.obj 2) => "module of B" | _ => "another module") .done)
    (run fresh recipeB).out = (["module of B"], true)
    ∧ (run { proc := (runAll fresh [recipeA]).proc, dirs := [] } recipeB).out = (["another module"], true) := by
  constructor <;> decide

/-- **unique_ids_depend_on_history** (D19, by design): a program that creates a generator is not
    deterministic in the sense of the property — its context number is the process-wide count -/
theorem unique_ids_depend_on_history :
    let p : Prog := .op .newGenerator (fun o => .emit (match o with | .nat 1 => "context 1" | _ => "later context") .done)
    (run fresh p).out = (["context 1"], true)
    ∧ (run { proc := (runAll fresh [p]).proc, dirs := [] } p).out = (["later context"], true) := by
  constructor <;> decide

/-! ## 4. The identity generator: ids are consecutive from the process-wide count, never shared -/

/-- the generators a run creates get the context numbers `ctx, ctx+1, …` in creation order -/
theorem generator_ids_consecutive (p : Prog) (st : St) :
    ctxIds st p = List.range' st.proc.ctx (gens st p) ∧ (run st p).st.proc.ctx = st.proc.ctx + gens st p :=
  ⟨ctxIds_eq p st, ctx_after_run p st⟩

/-- the counter never goes back, whatever runs -/
theorem ctx_monotone (ps : List Prog) : ∀ st : St, st.proc.ctx ≤ (runAll st ps).proc.ctx := by
  induction ps with
  | nil => intro st; exact Nat.le_refl _
  | cons p ps ih =>
    intro st
    simp only [runAll]
    refine Nat.le_trans ?_ (ih _)
    simp only []
    rw [ctx_after_run]; exact Nat.le_add_right _ _

/-- **generator_ids_distinct_across_runs**: the context number of any generator of a run is smaller than
    that of any generator created by a later run of the same process, however many runs (failed or not)
    lie between them — the part of C13 that needs the process-wide cell. -/
theorem generator_ids_distinct_across_runs (p1 p2 : Prog) (between : List Prog) (st : St) (x y : Nat)
    (hx : x ∈ ctxIds { st with dirs := [] } p1)
    (hy : y ∈ ctxIds { proc := (runAll st (p1 :: between)).proc, dirs := [] } p2) : x < y := by
  rw [ctxIds_eq] at hx hy
  simp only [List.mem_range'_1] at hx hy
  have h1 := ctx_after_run p1 { st with dirs := [] }
  have h2 := ctx_monotone between { proc := (run { st with dirs := [] } p1).st.proc, dirs := [] }
  simp only [runAll] at hy
  simp only [] at h1 h2
  omega

/-- within one run they are pairwise distinct as well -/
theorem generator_ids_nodup (p : Prog) (st : St) : (ctxIds st p).Nodup := by
  rw [ctxIds_eq]; exact List.nodup_range'

example : ctxIds fresh (.op .newGenerator (fun _ => .op .newGenerator (fun _ => .done))) = [1, 2] := by decide

/-! ## 5. The working directory is restored, also by a failing run -/

/-- **cwd_restored**: a run whose `chdir` brackets are balanced along every path — which `finally`
    guarantees also for paths that end in `fail` — leaves the process in the directory it started in. -/
theorem cwd_restored (p : Prog) (hb : Bal 0 p) (proc : Proc) :
    (run { proc := proc, dirs := [] } p).st.proc.cwd = proc.cwd := by
  have h1 := run_base p { proc := proc, dirs := [] }
  have h2 := bal_dirs hb { proc := proc, dirs := [] } rfl
  simp only [base, h2] at h1
  simpa using h1

/-- non-vacuity: a dataset lookup that fails inside the bracket (file not found) -/
example : Bal 0 (.op (.enterDir "/recipes/a") (fun _ => .op .leaveDir (fun _ => .fail "File not found"))) :=
  .enter (fun _ => .leave (fun _ => .fail))

/-- without the `finally` the next run starts somewhere else (what the mutation of `datasets.chdir` does) -/
example : (run fresh (.op (.enterDir "/recipes/a") (fun _ => .fail "File not found"))).st.proc.cwd = "/recipes/a" := by
  decide

/-! ## 6. lru_cache bookkeeping (what the correspondence compares after every run) -/

/-- every call is either a hit or a miss -/
theorem cache_hits_plus_misses (ms : Option Nat) (c : Cache) (k : Key) (v : Val) :
    (c.lookup ms k v).2.2.hits + (c.lookup ms k v).2.2.misses = c.hits + c.misses + 1 :=
  lookup_counts ms c k v

/-- a bounded cache never grows beyond `maxsize` -/
theorem cache_size_bounded (m : Nat) (hm : 1 ≤ m) (c : Cache) (k : Key) (v : Val) (h : c.entries.length ≤ m) :
    (c.lookup (some m) k v).2.2.entries.length ≤ m :=
  lookup_size m hm c k v h

/-- a call returns a stored value whose key is Python-equal to the argument, or calls the function -/
theorem cache_returns_stored_or_computed (ms : Option Nat) (c : Cache) (k : Key) (v : Val) :
    (∃ e ∈ c.entries, e.1.pyEq k = true ∧ (c.lookup ms k v).1 = e.2) ∨ (c.lookup ms k v).1 = v :=
  lookup_value ms c k v

/-! ## 7. The caller's `plugin_options` dict (D19c, repaired by commit 6b35a3e) -/

/-- **caller_plugin_options_untouched**: `generate` copies the dict before it stores the recipe's
    version — whatever the caller passed and whatever the recipe declares, the caller's dict is what it was -/
theorem caller_plugin_options_untouched (caller : Dict) (version : Option Int) :
    (prepareOptions true caller version).1 = caller := by
  simp [prepareOptions]

/-- **dialect_independent_of_earlier_calls**: an application that passes ONE dict to any number of calls
    gets, for every call, the dialect that call would have had with the original dict -/
theorem dialect_independent_of_earlier_calls (d : Dict) (vs : List (Option Int)) :
    dialects true d vs = vs.map (fun v => dialectOf (prepareOptions true d v).2) := by
  induction vs with
  | nil => rfl
  | cons v vs ih => simp only [dialects, List.map_cons, caller_plugin_options_untouched, ih]

/-- the recipe's declared version is what the run uses -/
theorem declared_version_wins (copies : Bool) (caller : Dict) (v : Int) :
    dialectOf (prepareOptions copies caller (some v)).2 = v := by
  simp [prepareOptions, dialectOf, Dict.set, Dict.get?]

/-- the old behaviour (`plugin_options or {}`, `copies = false`): a version-3 recipe followed by a
    recipe without declaration, one dict `{"pid": 5}` — the second call ran under version 3 -/
theorem old_behaviour_leaked_dialect :
    dialects false [("pid", 5)] [some 3, none] = [3, 3] ∧ dialects true [("pid", 5)] [some 3, none] = [3, 2] := by
  constructor <;> decide

/-! ## 8. Caller-owned arguments: the library only reads what the embedding application passes in -/

/-- **shared_args_independent** (frame theorem for caller-owned arguments): if every call leaves the argument
    object as it found it, an application that passes ONE object to any number of calls observes, for every call,
    exactly what that call yields on the original object -/
theorem shared_args_independent {A O : Type} (calls : List (A → A × O)) (a : A)
    (h : ∀ c ∈ calls, ∀ x, (c x).1 = x) : runShared calls a = calls.map (fun c => (c a).2) := by
  induction calls with
  | nil => rfl
  | cons c cs ih =>
    simp only [runShared, List.map_cons]
    rw [h c List.mem_cons_self a, ih (fun c' hc' => h c' (List.mem_cons_of_mem _ hc'))]

/-- `merge_options` with read-only access returns the caller's dict unchanged, whatever is declared and supplied,
    also when it fails with "No definition supplied" -/
theorem merge_options_reads_only (ds : List (String × Option Int)) :
    ∀ (user acc : Dict), (mergeOptions false ds user acc).1 = user := by
  induction ds with
  | nil => intro user acc; rfl
  | cons d ds ih =>
    intro user acc
    obtain ⟨n, dflt⟩ := d
    simp only [mergeOptions]
    cases user.get? n with
    | some v => exact ih user _
    | none =>
      cases dflt with
      | some x => simpa using ih user _
      | none => rfl

/-- **caller_user_options_untouched**: `generate` leaves the caller's `user_options` alone -/
theorem caller_user_options_untouched (ds : List (String × Option Int)) (user : Dict) :
    (generateOptions false ds user).1 = user := by
  simp only [generateOptions, merge_options_reads_only]; split <;> rfl

/-- **options_independent_of_earlier_calls**: one `user_options` dict passed to any list of recipes (arbitrary
    declarations, overlapping names, different defaults, some supplied, some not): every run resolves its options
    as it would with the original dict -/
theorem options_independent_of_earlier_calls (recipes : List (List (String × Option Int))) (user : Dict) :
    runShared (recipes.map (generateOptions false)) user = recipes.map (fun ds => (generateOptions false ds user).2) := by
  rw [shared_args_independent _ _ (by
    intro c hc x
    obtain ⟨ds, _, rfl⟩ := List.mem_map.mp hc
    exact caller_user_options_untouched ds x)]
  simp [List.map_map, Function.comp_def]

/-- the same frame instance for `plugin_options` (D19c) -/
theorem dialects_as_shared_calls (d : Dict) (vs : List (Option Int)) :
    runShared (vs.map (fun v (x : Dict) => ((prepareOptions true x v).1, dialectOf (prepareOptions true x v).2))) d
      = vs.map (fun v => dialectOf (prepareOptions true d v).2) := by
  rw [shared_args_independent _ _ (by
    intro c hc x
    obtain ⟨v, _, rfl⟩ := List.mem_map.mp hc
    exact caller_plugin_options_untouched x v)]
  simp [List.map_map, Function.comp_def]

/-- **write_back_leaks_default** — the access kind matters: with `user_options.setdefault(name, default)`
    (`writesBack = true`) and the non-empty dict `{y: 5}`, a recipe declaring `x` with default 1 followed by a recipe
    declaring `x` with default 2 runs the second one with `x = 1`; with read-only access it gets `x = 2` -/
theorem write_back_leaks_default :
    runShared ([[("x", some 1)], [("x", some 2)]].map (generateOptions true)) [("y", 5)]
      = [some [("x", 1)], some [("x", 1)]]
    ∧ runShared ([[("x", some 1)], [("x", some 2)]].map (generateOptions false)) [("y", 5)]
      = [some [("x", 1)], some [("x", 2)]] := by
  constructor <;> decide

/-- an empty dict is replaced by a fresh one inside `generate`: it never carries anything to the next call,
    even with write-back -/
theorem empty_user_options_never_leak (ds : List (String × Option Int)) : (generateOptions true ds []).1 = [] := by
  simp [generateOptions]

/-- **flushed_caches_stay_consistent** — why a cache flush (`importlib.invalidate_caches()`, class `cacheFlush` of
    `Known.processSettingWrites`) cannot make a run differ from its fresh-process run: emptying any cache of a consistent
    process leaves it consistent, and `frame_deterministic` holds between any two consistent processes (an empty cache
    answers every lookup by calling the function, which is what the fresh process does). -/
theorem flushed_caches_stay_consistent (F : CacheId → Key → Val) (P : CacheId → Key → Bool) (p : Proc)
    (h : Consistent F P p) (c : CacheId) : Consistent F P (p.setCache c {}) := by
  intro c' e he hP
  by_cases hc : c' = c
  · subst hc; simp [Proc.setCache] at he
  · simp only [Proc.setCache, hc, if_false] at he; exact h c' e he hP

/-- …hence a deterministic run emits the same output with and without the flush -/
theorem flush_is_invisible (F : CacheId → Key → Val) (P : CacheId → Key → Bool) (V : CacheId → Val → Val)
    (hcomp : Compat F P V) (prog : Prog) (hd : Det F P V false prog) (p : Proc) (h : Consistent F P p) (c : CacheId) :
    (run { proc := p.setCache c {}, dirs := [] } prog).out = (run { proc := p, dirs := [] } prog).out :=
  frame_deterministic F P V hcomp prog hd _ _ (flushed_caches_stay_consistent F P p h c) h rfl

end SnowModel.Props.C19
