/-
C08 — every configured output receives every row, faithfully.
Property theorems only (helper lemmas live in `SnowModel/Proofs/C08.lean`).

The theorems quantify over every write sequence (any length, any interleaving of tables), every
value of the two thresholds, every initial counter, every table set and every "unbindable row"
predicate `bad`; nothing is bounded.
-/
import SnowModel.Core.Output
import SnowModel.Proofs.C08
import Mathlib.Data.List.Forall2

namespace SnowModel.Props.C08
open SnowModel.Output

/-! ### B — the buffer / flush / commit bookkeeping loses nothing -/

/-- **Conservation at close.**  If all writes and `close()` succeeded, then for *every* table the
    database holds exactly the rows written to it, in order, when the table is in `table_info`,
    and nothing otherwise — whatever the row count, the thresholds and the interleaving. -/
theorem flush_only_known_tables {ρ : Type} (pre : Bool) (count0 fl cl : Nat) (bad : ρ → Bool)
    (known : List String) (ws : List (String × ρ)) (hn : ∀ w ∈ ws, w.1 ≠ "") (s : Db ρ)
    (h : runDb pre count0 fl cl bad known ws = .closed s) :
    ∀ T, s.committed T = (if known.contains T then rowsOf T ws else [])
       ∧ s.buffered T = (if known.contains T then [] else rowsOf T ws) := by
  unfold runDb at h
  split at h
  · cases h
  · rename_i s0 e0
    split at h
    · cases h
    · rename_i s1 e1
      split at h
      · cases h
      · rename_i s2 e2
        cases h
        have c00 : Proofs.C08.Conserve s0 known ([] ++ ws) :=
          (Proofs.C08.conserve_writeAll ws _ s0 [] (Proofs.C08.conserve_init count0 known) e0).1
        rw [List.nil_append] at c00
        have c0 := (Proofs.C08.conserve_preCommit c00 e1).1
        by_cases hne : ws = []
        · subst hne
          have c1 := (Proofs.C08.conserve_commit c0 e2).1
          intro T
          by_cases hT : known.contains T = true
          · have := c1.kn T hT
            rw [Proofs.C08.rowsOf_nil, List.append_eq_nil_iff] at this
            simp only [hT, if_true, Proofs.C08.rowsOf_nil]
            exact this
          · have hT' : known.contains T = false := by simpa using hT
            simp only [hT', Bool.false_eq_true, if_false]
            exact c1.unk T hT'
        · rw [Proofs.C08.commit_eq_flush c0 hne hn] at e2
          obtain ⟨c1, hb, _⟩ := Proofs.C08.conserve_flush c0 e2
          intro T
          by_cases hT : known.contains T = true
          · have := c1.kn T hT
            rw [hb T hT, List.append_nil] at this
            simp only [hT, if_true]
            exact ⟨this, hb T hT⟩
          · have hT' : known.contains T = false := by simpa using hT
            simp only [hT', Bool.false_eq_true, if_false]
            exact c1.unk T hT'

/-- **`buffer_lossless`.**  When every written table is in `table_info` (discharged by
    `schema_covers_rows` + the fact that `table_info` has one entry per inferred table) a run whose
    `close()` succeeded committed, for every table, exactly the rows written, in order, and the
    buffer is empty — for any number of rows, in particular across the flush and commit thresholds. -/
theorem closed_lossless {ρ : Type} (pre : Bool) (count0 fl cl : Nat) (bad : ρ → Bool) (known : List String)
    (ws : List (String × ρ)) (hk : ∀ w ∈ ws, w.1 ∈ known) (hn : ∀ w ∈ ws, w.1 ≠ "") (s : Db ρ)
    (h : runDb pre count0 fl cl bad known ws = .closed s) :
    ∀ T, s.committed T = rowsOf T ws ∧ s.buffered T = [] := by
  intro T
  have := flush_only_known_tables pre count0 fl cl bad known ws hn s h T
  by_cases hT : known.contains T = true
  · simp only [hT, if_true] at this
    exact this
  · have hT' : known.contains T = false := by simpa using hT
    have hempty : rowsOf T ws = [] := by
      simp only [rowsOf, List.map_eq_nil_iff, List.filter_eq_nil_iff]
      intro w hw hwT
      have : w.1 = T := by simpa using hwT
      have := hk w hw
      rw [‹w.1 = T›] at this
      exact hT (List.contains_iff_mem.2 this)
    simp only [hT', Bool.false_eq_true, if_false] at this
    rw [hempty]; rw [hempty] at this; exact this

/-- Rows sqlite can bind are never refused: the run closes and (by `closed_lossless`) nothing is lost. -/
theorem buffer_lossless {ρ : Type} (pre : Bool) (count0 fl cl : Nat) (bad : ρ → Bool) (known : List String)
    (ws : List (String × ρ)) (hk : ∀ w ∈ ws, w.1 ∈ known) (hn : ∀ w ∈ ws, w.1 ≠ "")
    (hg : ∀ w ∈ ws, bad w.2 = false) :
    ∃ s, runDb pre count0 fl cl bad known ws = .closed s ∧ s.count = count0 + ws.length
      ∧ ∀ T, s.committed T = rowsOf T ws ∧ s.buffered T = [] := by
  have c00 := Proofs.C08.conserve_init (ρ := ρ) count0 known
  obtain ⟨s0, e0⟩ := Proofs.C08.writeAll_ok_of_good (fl := fl) (cl := cl) (bad := bad) ws _ [] c00
    (by simpa using hg)
  have c0' := Proofs.C08.conserve_writeAll ws _ s0 [] c00 e0
  have c0 : Proofs.C08.Conserve s0 known ws := by simpa using c0'.1
  obtain ⟨s1, e1⟩ := Proofs.C08.preCommit_ok_of_good (pre := pre) (bad := bad) c0 hg
  have c1 := Proofs.C08.conserve_preCommit c0 e1
  obtain ⟨s2, e2⟩ := Proofs.C08.commit_ok_of_good (bad := bad) c1.1 hg
  have hrun : runDb pre count0 fl cl bad known ws = .closed s2 := by
    simp only [runDb, e0, e1, e2]
  refine ⟨s2, hrun, ?_, closed_lossless pre count0 fl cl bad known ws hk hn s2 hrun⟩
  rw [(Proofs.C08.conserve_commit c1.1 e2).2, c1.2, c0'.2]; rfl

/-- **The flush threshold is really used** (this is where the pinned test
    `count % flush_limit == 0` enters): a `write_row` issued when the counter is a multiple of the
    flush threshold leaves the buffer of every schema table empty — so the buffer never holds
    more than one threshold's worth of rows of the schema tables. -/
theorem flush_at_threshold {ρ : Type} (fl cl : Nat) (bad : ρ → Bool) (s s' : Db ρ) (t : String) (r : ρ)
    (hw : s.writeRow fl cl bad t r = some s') (hc : s.count % fl = 0) :
    ∀ T, s.known.contains T = true → s'.buffered T = [] :=
  Proofs.C08.writeRow_at_threshold t r hw hc

/-- **Conservation at every point of the run**, not only at close: whatever was written is either in
    the database or still in the buffer, in order; rows of tables outside the schema only accumulate
    in the buffer. -/
theorem conservation_during_run {ρ : Type} (count0 fl cl : Nat) (bad : ρ → Bool) (known : List String)
    (ws : List (String × ρ)) (s : Db ρ)
    (h : Db.writeAll fl cl bad (Db.init count0 known) ws = some s) :
    s.count = count0 + ws.length ∧
    ∀ T, (known.contains T = true → s.committed T ++ s.buffered T = rowsOf T ws)
       ∧ (known.contains T = false → s.committed T = [] ∧ s.buffered T = rowsOf T ws) := by
  have c := Proofs.C08.conserve_writeAll ws _ s [] (Proofs.C08.conserve_init count0 known) h
  rw [List.nil_append] at c
  exact ⟨c.2, fun T => ⟨c.1.kn T, c.1.unk T⟩⟩

/-! ### R — "a run that reports success has lost nothing" -/

/-- the row predicate of the witnesses: the field value does not fit a signed 64-bit integer -/
def tooBig (i : Int) : Bool := !int64 i

/-- **`close()` of the database stream cannot fail any more** (fix 043066e): `generate` has
    committed before, so when `close()` runs either the schema buffers are empty or there was
    nothing to flush — for every write sequence and every row predicate. -/
theorem close_never_fails {ρ : Type} (count0 fl cl : Nat) (bad : ρ → Bool) (known : List String)
    (ws : List (String × ρ)) (s : Db ρ) : runDb true count0 fl cl bad known ws ≠ .closeFailed s := by
  intro h
  unfold runDb at h
  split at h
  · cases h
  · split at h
    · cases h
    · rename_i s1 e1
      split at h
      · rename_i e2
        simp only [Db.preCommit, if_true] at e1
        obtain ⟨s2, e2'⟩ := Proofs.C08.commit_after_commit e1
        rw [e2'] at e2
        cases e2
      · cases h

/-- **`close_reports` — a run that reports success has lost nothing** (full strength since fix
    043066e; refuted before it — D15).  For every write sequence to tables of the schema, every pair
    of thresholds, every row predicate (unbindable rows included) and *whatever the handler around
    `close()` does* (`swallow` arbitrary — it still swallows): if the run reports success then the
    database holds, for every table, exactly the rows written, in order, and the buffer is empty. -/
theorem close_reports {ρ : Type} (swallow : Bool) (count0 fl cl : Nat) (bad : ρ → Bool)
    (known : List String) (ws : List (String × ρ)) (hk : ∀ w ∈ ws, w.1 ∈ known)
    (hn : ∀ w ∈ ws, w.1 ≠ "")
    (h : reportsSuccess swallow (runDb true count0 fl cl bad known ws) = true) :
    ∃ s, runDb true count0 fl cl bad known ws = .closed s
      ∧ ∀ T, s.committed T = rowsOf T ws ∧ s.buffered T = [] := by
  cases hr : runDb true count0 fl cl bad known ws with
  | writeFailed => rw [hr] at h; cases h
  | commitFailed => rw [hr] at h; cases h
  | closeFailed s => exact absurd hr (close_never_fails count0 fl cl bad known ws s)
  | closed s => exact ⟨s, rfl, closed_lossless true count0 fl cl bad known ws hk hn s hr⟩

/-- An unbindable row in the final batch now *fails* the run (the D15 input: one row with `2**70`,
    thresholds 1000 / 10000): outcome `commitFailed`, not reported as success. -/
theorem final_batch_error_is_reported :
    runDb true 1 1000 10000 tooBig ["A"] [("A", (1180591620717411303424 : Int))] = .commitFailed
    ∧ reportsSuccess true (runDb true 1 1000 10000 tooBig ["A"] [("A", (1180591620717411303424 : Int))]) = false :=
  ⟨rfl, rfl⟩

/-- **The behaviour before the fix (`pre = false`), kept as an explicit parameter of the model**:
    one row with `2**70`, no threshold reached, `close()` raises `OverflowError`, the handler
    swallows it, the run reports success and table `A` is empty (the D15 witness; the harness
    replays it on the real code as a regression case). -/
theorem close_reports_old_refuted :
    ∃ (ws : List (String × Int)) (s : Db Int),
      runDb false 1 1000 10000 tooBig ["A"] ws = .closeFailed s
      ∧ reportsSuccess true (runDb false 1 1000 10000 tooBig ["A"] ws) = true
      ∧ s.committed "A" = [] ∧ rowsOf "A" ws = [1180591620717411303424] :=
  ⟨[("A", 1180591620717411303424)], _, rfl, rfl, rfl, rfl⟩

/-- When every row can be bound by the database, the run reports success *and* nothing is lost
    (any thresholds, any length; with or without the commit of `generate`). -/
theorem close_reports_good_rows {ρ : Type} (pre swallow : Bool) (count0 fl cl : Nat) (bad : ρ → Bool)
    (known : List String) (ws : List (String × ρ)) (hk : ∀ w ∈ ws, w.1 ∈ known)
    (hn : ∀ w ∈ ws, w.1 ≠ "") (hg : ∀ w ∈ ws, bad w.2 = false) :
    reportsSuccess swallow (runDb pre count0 fl cl bad known ws) = true
    ∧ ∃ s, (runDb pre count0 fl cl bad known ws).db? = some s ∧ ∀ T, s.committed T = rowsOf T ws := by
  obtain ⟨s, hs, _, hl⟩ := buffer_lossless pre count0 fl cl bad known ws hk hn hg
  rw [hs]
  exact ⟨rfl, s, rfl, fun T => (hl T).1⟩

/-- **What a failing `close()` would lose** (any `pre`; with `pre = true` the hypothesis is
    unsatisfiable by `close_never_fails`): the rows still in the buffer — all of them, the bindable
    ones too — and the failure is caused by an unbindable row among them. -/
theorem close_failure_loses_exactly_the_buffer {ρ : Type} (pre : Bool) (count0 fl cl : Nat) (bad : ρ → Bool)
    (known : List String) (ws : List (String × ρ)) (s : Db ρ)
    (h : runDb pre count0 fl cl bad known ws = .closeFailed s) :
    (∀ T, known.contains T = true → s.committed T ++ s.buffered T = rowsOf T ws)
    ∧ ∃ T ∈ known, ∃ r ∈ s.buffered T, bad r = true := by
  unfold runDb at h
  split at h
  · cases h
  · rename_i s0 e0
    split at h
    · cases h
    · rename_i s1 e1
      split at h
      · rename_i e2
        cases h
        have c00 := (Proofs.C08.conserve_writeAll ws _ s0 [] (Proofs.C08.conserve_init count0 known) e0).1
        rw [List.nil_append] at c00
        have c0 := (Proofs.C08.conserve_preCommit c00 e1).1
        refine ⟨c0.kn, ?_⟩
        unfold Db.commit at e2
        split at e2
        · unfold Db.flush at e2
          split at e2
          · rename_i hany
            rw [List.any_eq_true] at hany
            obtain ⟨T, hT, hb⟩ := hany
            rw [List.any_eq_true] at hb
            obtain ⟨r, hr, hbad⟩ := hb
            rw [c0.known_eq] at hT
            exact ⟨T, hT, r, hr, hbad⟩
          · cases e2
        · cases e2
      · cases h

/-- If the handler did *not* swallow (`swallow = false`), success ⇒ nothing lost already held
    without the commit of `generate` (any `pre`). -/
theorem success_without_swallow_is_lossless {ρ : Type} (pre : Bool) (count0 fl cl : Nat) (bad : ρ → Bool)
    (known : List String) (ws : List (String × ρ)) (hk : ∀ w ∈ ws, w.1 ∈ known)
    (hn : ∀ w ∈ ws, w.1 ≠ "")
    (h : reportsSuccess false (runDb pre count0 fl cl bad known ws) = true) :
    ∃ s, runDb pre count0 fl cl bad known ws = .closed s ∧ ∀ T, s.committed T = rowsOf T ws := by
  cases hr : runDb pre count0 fl cl bad known ws with
  | writeFailed => rw [hr] at h; cases h
  | commitFailed => rw [hr] at h; cases h
  | closeFailed s => rw [hr] at h; cases h
  | closed s => exact ⟨s, rfl, fun T => (closed_lossless pre count0 fl cl bad known ws hk hn s hr T).1⟩

/-! #### The SQL script: the dump is still written by `close()` -/

/- FULL STATEMENT (false, residual of D15 — finding D15b):
   theorem close_reports_script : reportsSuccess true (runScript true dumpOk …).1 = true →
     ∃ s, (runScript true dumpOk …).2 = some s ∧ ∀ T, s.committed T = rowsOf T ws
   `SqlTextOutputStream.close` writes the dump of the inner database into the text file; when that
   write raises (a character the file's encoding cannot represent), `configure_output_stream` swallows
   the exception: success is reported and the script holds no row, although every row was committed
   to the inner database. -/

/-- **D15b witness**: one bindable row, the dump cannot be written (`dumpOk = false`): the run
    reports success, the inner database holds the row, the script holds nothing. -/
theorem close_reports_script_refuted :
    ∃ (ws : List (String × Int)) (s : Db Int),
      runScript true false 1 1000 10000 tooBig ["A"] ws = (.closeFailed s, Option.none)
      ∧ reportsSuccess true (runScript true false 1 1000 10000 tooBig ["A"] ws).1 = true
      ∧ s.committed "A" = rowsOf "A" ws ∧ rowsOf "A" ws = [7] :=
  ⟨[("A", 7)], _, rfl, rfl, rfl, rfl⟩

/-- When the dump can be written, a SQL-script run that reports success holds every row. -/
theorem close_reports_script_partial {ρ : Type} (swallow : Bool) (count0 fl cl : Nat) (bad : ρ → Bool)
    (known : List String) (ws : List (String × ρ)) (hk : ∀ w ∈ ws, w.1 ∈ known)
    (hn : ∀ w ∈ ws, w.1 ≠ "")
    (h : reportsSuccess swallow (runScript true true count0 fl cl bad known ws).1 = true) :
    ∃ s, (runScript true true count0 fl cl bad known ws).2 = some s
      ∧ ∀ T, s.committed T = rowsOf T ws := by
  unfold runScript at h ⊢
  cases hr : runDb true count0 fl cl bad known ws with
  | writeFailed => rw [hr] at h; cases h
  | commitFailed => rw [hr] at h; cases h
  | closeFailed s => exact absurd hr (close_never_fails count0 fl cl bad known ws s)
  | closed s =>
    simp only [if_true]
    exact ⟨s, rfl, fun T => (closed_lossless true count0 fl cl bad known ws hk hn s hr T).1⟩

/-! ### E — the encoder tables are total on the value universe -/

/-- values sqlite can bind: ints (and reference ids) within 64 bits -/
def fitsSqlite : Val → Bool
  | .int i => int64 i
  | .ref _ i => int64 i
  | _ => true

abbrev isSql : Cls → Bool := Proofs.C08.isSql

/-- the one sanctioned refusal: the SQL script has no way to write a string that holds a NUL
    character (its encoder `_reject_nul` raises, the run fails with "Cannot write row") -/
def sqlScriptOk : Cls → Val → Bool
  | .sqlText, .str s => !hasNul s
  | _, _ => true

/-- **`encoders_total`.**  For every stream class and every value of the universe
    {str, int, float, bool, None, date, datetime, Decimal, row/reference, simplifiable object}
    `cleanup` finds an encoder and the encoder applies — the SQL script excepted for strings holding
    a NUL character, which it refuses with an error (`cell_str`). -/
theorem encoders_total (c : Cls) (v : Val) (hv : InUniverse v) (hn : sqlScriptOk c v = true) :
    ∃ x, cleanup c v = .ok x := by
  cases c <;> cases v <;>
    first
    | exact ⟨_, rfl⟩
    | (rename_i s
       have h : hasNul s = false := by simpa [sqlScriptOk] using hn
       exact ⟨_, by rw [Proofs.C08.cleanup_sqlText_str, h]; rfl⟩)
    | (rename_i o; cases o <;> first | exact ⟨_, rfl⟩ | exact absurd hv (by simp [InUniverse]))

/-- …and the encoded value is accepted by the class's sink (for the two sqlite-backed classes:
    provided integers fit 64 bits), so every value of the universe has a cell in every artefact. -/
theorem cells_total (c : Cls) (hc : c ≠ .base) (isId : Bool) (v : Val) (hv : InUniverse v)
    (hs : isSql c = true → fitsSqlite v = true) (hn : sqlScriptOk c v = true) :
    ∃ cell, encodeCell c isId v = .ok cell := by
  cases c <;> first | exact absurd rfl hc | skip
  all_goals
    cases v with
    | other o =>
      cases o with
      | none => exact absurd hv (by simp [InUniverse])
      | some s => exact ⟨_, rfl⟩
    | int i =>
      first
      | exact ⟨_, rfl⟩
      | (have h : int64 i = true := hs rfl
         refine ⟨if isId then .int i else .text (toString i), ?_⟩
         rw [Proofs.C08.encodeCell_int_sql _ rfl, Proofs.C08.sink_int_sql _ rfl, h]; rfl)
    | ref t i =>
      first
      | exact ⟨_, rfl⟩
      | (have h : int64 i = true := hs rfl
         refine ⟨if isId then .int i else .text (toString i), ?_⟩
         rw [Proofs.C08.encodeCell_ref_sql _ rfl, Proofs.C08.sink_int_sql _ rfl, h]; rfl)
    | bool b => cases b <;> exact ⟨_, rfl⟩
    | str s =>
      first
      | exact ⟨_, rfl⟩
      | (have h : hasNul s = false := by simpa [sqlScriptOk] using hn
         exact ⟨_, by simp only [encodeCell, Proofs.C08.cleanup_sqlText_str, h]; rfl⟩)
    | _ => exact ⟨_, rfl⟩

/-- **Root of D15**: an integer outside 64 bits has an encoder in the sqlite-backed classes but
    the sink refuses it (`OverflowError` at flush time). -/
theorem bigint_overflows_sqlite (c : Cls) (hc : isSql c = true) (isId : Bool) (i : Int)
    (hi : int64 i = false) : encodeCell c isId (.int i) = .error .overflow := by
  cases c <;> first | (exact absurd hc (by decide)) | skip
  all_goals
    rw [Proofs.C08.encodeCell_int_sql _ rfl, Proofs.C08.sink_int_sql _ rfl, hi]; rfl

/-! #### The per-format encoding (what an independent decoder reads back) -/

/-- **`cell_str`** (full strength since fix e8cf4d3; refuted before it — D56): every class carries
    every string verbatim — control characters, separators, quotes, any length — except that the SQL
    script *refuses* a string holding a NUL character with an error (the run fails); it never
    writes a shortened value. -/
theorem cell_str (c : Cls) (hc : c ≠ .base) (isId : Bool) (s : String) :
    encodeCell c isId (.str s) =
      if c = .sqlText ∧ hasNul s = true then .error .encoderRaises else .ok (.text s) := by
  cases c <;> first | exact absurd rfl hc | rfl | skip
  simp only [encodeCell, Proofs.C08.cleanup_sqlText_str, true_and]
  cases h : hasNul s
  · simp only [Bool.false_eq_true, if_false]
    show Except.ok (Cell.text (truncNul s)) = _
    rw [Proofs.C08.truncNul_of_no_nul s (Proofs.C08.not_mem_of_hasNul_false h)]
  · rfl

/-- a string without a NUL character round-trips in every format -/
theorem cell_str_verbatim (c : Cls) (hc : c ≠ .base) (isId : Bool) (s : String) (h : hasNul s = false) :
    encodeCell c isId (.str s) = .ok (.text s) := by
  rw [cell_str c hc isId s, h]; simp

/-- **never success with a shortened value**: whenever a string gets a cell at all, the cell is the
    string itself. -/
theorem cell_str_never_shortened (c : Cls) (hc : c ≠ .base) (isId : Bool) (s : String) (cell : Cell)
    (h : encodeCell c isId (.str s) = .ok cell) : cell = .text s := by
  rw [cell_str c hc isId s] at h
  split at h
  · cases h
  · cases h; rfl

/-- why the encoder has to refuse: the dump itself (`iterdump()` / sqlite `quote()`) would cut
    `"a\0b"` down to `"a"` (the behaviour of the whole stream before the fix, D56). -/
theorem sql_dump_would_truncate :
    sink .sqlText false (.str (String.ofList ['a', Char.ofNat 0, 'b'])) = .ok (.text "a") := by
  decide

theorem cell_bool (c : Cls) (hc : c ≠ .base) (b : Bool) :
    encodeCell c false (.bool b) =
      .ok (match c with
           | .json => .bool b
           | _ => .text (toString (if b then (1 : Int) else 0))) := by
  cases c <;> first | exact absurd rfl hc | (cases b <;> rfl)

theorem cell_none (c : Cls) (hc : c ≠ .base) :
    encodeCell c false .none =
      .ok (match c with
           | .debug => .text "None"
           | .csv => .text ""
           | _ => .null) := by
  cases c <;> first | exact absurd rfl hc | rfl

/-- csv is the only format that identifies `None` with the empty string -/
theorem none_vs_empty (c : Cls) (hc : c ≠ .base) :
    (encodeCell c false .none = encodeCell c false (.str "")) ↔ c = .csv := by
  cases c <;> first | exact absurd rfl hc | skip
  all_goals simp [cell_none, cell_str, hasNul]

theorem cell_date (c : Cls) (hc : c ≠ .base) (iso : String) :
    encodeCell c false (.date iso) = .ok (.text iso) := by
  cases c <;> first | exact absurd rfl hc | rfl

/-- datetimes: `T` separator and whole seconds in txt / csv / database, `str(dt)` (space
    separator, microseconds kept) in json and in the SQL script -/
theorem cell_datetime (c : Cls) (hc : c ≠ .base) (tsec sp : String) :
    encodeCell c false (.datetime tsec sp) =
      .ok (.text (match c with
                  | .json => sp
                  | .sqlText => sp
                  | _ => tsec)) := by
  cases c <;> first | exact absurd rfl hc | rfl

/-- (`s` = `str(decimal)`, which never contains a NUL character; the hypothesis is needed only
    because the SQL script renders the encoded string through `quote()`, see `sql_dump_would_truncate`;
    `Decimal` has its own dict key, so its rendering does not pass `_reject_nul`) -/
theorem cell_decimal (c : Cls) (hc : c ≠ .base) (s : String) (h : Char.ofNat 0 ∉ s.toList) :
    encodeCell c false (.decimal s) = .ok (.text s) := by
  cases c <;> first | exact absurd rfl hc | rfl | skip
  show Except.ok (Cell.text (truncNul s)) = _
  rw [Proofs.C08.truncNul_of_no_nul s h]

/-- references are written as the id of the target row (the debug text shows `Table(id)`) -/
theorem cell_ref (c : Cls) (hc : c ≠ .base) (t : String) (i : Int) (hi : int64 i = true) :
    encodeCell c false (.ref t i) =
      .ok (match c with
           | .debug => .text (t ++ "(" ++ toString i ++ ")")
           | .json => .int i
           | _ => .text (toString i)) := by
  cases c <;> first | exact absurd rfl hc | skip
  all_goals
    first
    | rfl
    | (rw [Proofs.C08.encodeCell_ref_sql _ rfl, Proofs.C08.sink_int_sql _ rfl, hi]; rfl)

theorem cell_int (c : Cls) (hc : c ≠ .base) (i : Int) (hi : int64 i = true) :
    encodeCell c false (.int i) =
      .ok (match c with
           | .json => .int i
           | _ => .text (toString i)) := by
  cases c <;> first | exact absurd rfl hc | skip
  all_goals
    first
    | rfl
    | (rw [Proofs.C08.encodeCell_int_sql _ rfl, Proofs.C08.sink_int_sql _ rfl, hi]; rfl)

/-- the `id` column: an integer in json and in the database, text in csv and in the debug text -/
theorem cell_id (c : Cls) (hc : c ≠ .base) (i : Int) (hi : int64 i = true) :
    encodeCell c true (.int i) =
      .ok (match c with
           | .debug => .text (toString i)
           | .csv => .text (toString i)
           | _ => .int i) := by
  cases c <;> first | exact absurd rfl hc | skip
  all_goals
    first
    | rfl
    | (rw [Proofs.C08.encodeCell_int_sql _ rfl, Proofs.C08.sink_int_sql _ rfl, hi]; rfl)

/-! ### S — the inferred schema covers every key of every row -/

/-- **`schema_covers_rows`.**  For every recipe (list of templates, any nesting flattened) and
    every template in it, each key of the dict the template passes to `write_row` is a column of
    the database table (`fallback_dict`), so `_flush_rows` projects nothing away. -/
theorem schema_covers_rows (tpls : List Template) (tpl : Template) (hm : tpl ∈ tpls) :
    ∀ k ∈ writtenKeys tpl, k ∈ dbColumns (inferTable tpls tpl.table) := by
  intro k hk
  have hm' : tpl ∈ tpls.filter (fun t => t.table == tpl.table) := by
    simp [List.mem_filter, hm]
  obtain ⟨hf, hu⟩ := Proofs.C08.foldl_register_covers _ { fields := [], hasUpdateKeys := false } tpl hm'
  simp only [writtenKeys, List.mem_filter, List.mem_append, List.mem_cons] at hk
  obtain ⟨hk, hh⟩ := hk
  have hh' : isHidden k = false := by simpa using hh
  unfold dbColumns inferTable
  simp only
  rcases hk with (rfl | hk) | hk
  · split
    · exact Proofs.C08.mem_addField.2 (Or.inl (Proofs.C08.mem_addField.2 (Or.inr rfl)))
    · exact Proofs.C08.mem_addField.2 (Or.inr rfl)
  · by_cases hu' : tpl.updateKey = true
    · simp only [hu', if_true, List.mem_singleton] at hk
      subst hk
      rw [if_pos (hu hu')]
      exact Proofs.C08.mem_addField.2 (Or.inr rfl)
    · simp [hu'] at hk
  · have := hf k hk hh'
    split
    · exact Proofs.C08.mem_addField.2 (Or.inl (Proofs.C08.mem_addField.2 (Or.inl this)))
    · exact Proofs.C08.mem_addField.2 (Or.inl this)

/-- `_flush_rows` keeps every (key, value) of a row whose keys are columns. -/
theorem project_keeps_row {ν : Type} (cols : List String) (row : List (String × ν))
    (hnd : (row.map Prod.fst).Nodup) (hc : ∀ kv ∈ row, kv.1 ∈ cols) :
    ∀ kv ∈ row, (kv.1, some kv.2) ∈ projectRow cols row := by
  intro kv hkv
  simp only [projectRow, List.mem_map]
  refine ⟨kv.1, hc kv hkv, ?_⟩
  have : dictGet row kv.1 = some kv.2 := by
    induction row with
    | nil => cases hkv
    | cons a row ih =>
      simp only [List.map_cons, List.nodup_cons] at hnd
      rcases List.mem_cons.1 hkv with rfl | h
      · simp [dictGet]
      · have hne : a.1 ≠ kv.1 := by
          intro e
          exact hnd.1 (e ▸ List.mem_map_of_mem (f := Prod.fst) h)
        simp only [dictGet, hne, if_false]
        exact ih hnd.2 (fun kv' h' => hc kv' (List.mem_cons_of_mem _ h')) h
  rw [this]

/-- **`csv_header_covers_rows`** (full strength since fix bc0f717; refuted before it — D16, witness
    `- object: A  update_key: name  fields: {name: x}`): for every recipe and every template in it,
    each key of the dict the template passes to `write_row` — `id`, `_sf_update_key` iff the template
    has an update key, the visible fields — is in the CSV header of its table, so `csv.DictWriter`
    never raises on an extra key. -/
theorem csv_header_covers_rows (tpls : List Template) (tpl : Template) (hm : tpl ∈ tpls) :
    ∀ k ∈ writtenKeys tpl, k ∈ csvHeader (inferTable tpls tpl.table) := by
  intro k hk
  have hm' : tpl ∈ tpls.filter (fun t => t.table == tpl.table) := by
    simp [List.mem_filter, hm]
  obtain ⟨hf, hu⟩ := Proofs.C08.foldl_register_covers _ { fields := [], hasUpdateKeys := false } tpl hm'
  simp only [writtenKeys, List.mem_filter, List.mem_append, List.mem_cons] at hk
  obtain ⟨hk, hh⟩ := hk
  have hh' : isHidden k = false := by simpa using hh
  simp only [csvHeader, inferTable, List.mem_append, List.mem_singleton]
  rcases hk with (rfl | hk) | hk
  · exact Or.inl (Or.inr rfl)
  · by_cases hu' : tpl.updateKey = true
    · simp only [hu', if_true, List.mem_singleton] at hk
      subst hk
      exact Or.inr (by simp [hu hu'])
    · simp [hu'] at hk
  · exact Or.inl (Or.inl (hf k hk hh'))

/-- The header has no column the schema does not know: it is exactly the DB column list when no
    field is itself called `id` / `_sf_update_key` — in particular CSV and database agree on
    whether `_sf_update_key` is a column. -/
theorem csv_header_update_key_iff (ti : TableInfo) (h : "_sf_update_key" ∉ ti.fields) :
    "_sf_update_key" ∈ csvHeader ti ↔ ti.hasUpdateKeys = true := by
  simp only [csvHeader, List.mem_append, List.mem_singleton]
  constructor
  · rintro ((h' | h') | h')
    · exact absurd h' h
    · exact absurd h' (by decide)
    · by_cases hu : ti.hasUpdateKeys = true
      · exact hu
      · simp [hu] at h'
  · intro hu
    exact Or.inr (by simp [hu])

/-! ### M — multiplexing is `map write` over the streams -/

/-- **`mux_fanout`.**  Writing a sequence of rows through a `MultiplexOutputStream` succeeds with
    final stream states `ss'` iff writing the same sequence to each stream on its own succeeds with
    the corresponding state — for any number of streams and rows. -/
theorem mux_fanout {σ α ε : Type} (w : α → σ → Except ε σ) (as : List α) (ss ss' : List σ) :
    runMux w ss as = .ok ss' ↔ List.Forall₂ (fun s s' => runOne w s as = .ok s') ss ss' := by
  induction ss generalizing ss' with
  | nil =>
    rw [Proofs.C08.runMux_nil]
    constructor
    · intro h; cases h; exact List.Forall₂.nil
    · intro h; cases h; rfl
  | cons s ss ih =>
    rw [Proofs.C08.runMux_cons]
    constructor
    · rintro ⟨s', ss1, rfl, h1, h2⟩
      exact List.Forall₂.cons h1 ((ih ss1).1 h2)
    · intro h
      cases h with
      | cons h1 h2 => exact ⟨_, _, rfl, h1, (ih _).2 h2⟩

/-- **`mux_close_reaches_all`** (full strength since fix 043066e; refuted before it — part of D15):
    `MultiplexOutputStream.close` reaches every stream, whichever closes raise — the result for
    stream `i` is exactly whether its own close succeeded. -/
theorem mux_close_reaches_all {σ : Type} (closeOk : σ → Bool) (ss : List σ) :
    muxClose true closeOk ss = ss.map (fun s => some (closeOk s)) := by
  induction ss with
  | nil => rfl
  | cons s ss ih =>
    by_cases h : closeOk s = true
    · simp only [muxClose, h, if_true, List.map_cons, ih]
    · have h' : closeOk s = false := by simpa using h
      simp only [muxClose, h', Bool.false_eq_true, if_false, if_true, List.map_cons, ih]

theorem mux_close_none_unreached {σ : Type} (closeOk : σ → Bool) (ss : List σ) :
    Option.none ∉ muxClose true closeOk ss := by
  rw [mux_close_reaches_all]
  simp

/-- …and the error is not lost: `close` raises iff some stream's close raised. -/
theorem mux_close_raises_iff {σ : Type} (closeOk : σ → Bool) (ss : List σ) :
    muxCloseRaises closeOk ss = true ↔ some false ∈ muxClose true closeOk ss := by
  rw [mux_close_reaches_all]
  simp [muxCloseRaises]

/-- The loop before the fix (`goOn = false`, explicit parameter): the first failing close leaves the
    later streams unclosed. -/
theorem mux_close_old_refuted :
    ∃ (closeOk : Bool → Bool) (ss : List Bool), Option.none ∈ muxClose false closeOk ss :=
  ⟨id, [false, true], by decide⟩

/-! ### Non-vacuity -/

/-- 2500 rows over two tables with thresholds 1000 / 10000: hypotheses of `buffer_lossless` hold. -/
example : ∃ s, runDb true 1 1000 10000 tooBig ["A", "B"]
      ((List.range 2500).map (fun (n : Nat) => (if n % 3 = 0 then "B" else "A", (n : Int)))) = .closed s
    ∧ s.count = 1 + 2500 ∧ ∀ T, s.committed T = rowsOf T ((List.range 2500).map
        (fun (n : Nat) => (if n % 3 = 0 then "B" else "A", (n : Int)))) ∧ s.buffered T = [] := by
  have := buffer_lossless (ρ := Int) true 1 1000 10000 tooBig ["A", "B"]
    ((List.range 2500).map (fun (n : Nat) => (if n % 3 = 0 then "B" else "A", (n : Int))))
    (by intro w hw
        simp only [List.mem_map] at hw
        obtain ⟨n, _, rfl⟩ := hw
        by_cases h : n % 3 = 0 <;> simp [h])
    (by intro w hw
        simp only [List.mem_map] at hw
        obtain ⟨n, _, rfl⟩ := hw
        by_cases h : n % 3 = 0 <;> simp [h])
    (by intro w hw
        simp only [List.mem_map, List.mem_range] at hw
        obtain ⟨n, hn, rfl⟩ := hw
        simp only [tooBig, int64, Bool.not_eq_false', Bool.and_eq_true, decide_eq_true_eq]
        omega)
  simpa using this

/-- a flush really happens at the threshold: 3 rows, `flush_limit = 2` -/
example : (Db.writeAll 2 10 tooBig (Db.init 1 ["A"]) [("A", 1), ("A", 2), ("A", 3)]).map
    (fun s => (s.committed "A", s.buffered "A", s.log)) = some ([1, 2], [3], [(2, "A", 2)]) := by decide

example : encodeCell .json false (.datetime "2024-02-29T01:02:03+00:00" "2024-02-29 01:02:03+00:00")
    = .ok (.text "2024-02-29 01:02:03+00:00") := rfl
example : encodeCell .debug false (.ref "P" 1) = .ok (.text "P(1)") := by rfl
example : cleanup .json (.other Option.none) = .error .noEncoder := rfl

end SnowModel.Props.C08
