/-
C03 — a recipe without random functions has exactly one, documented, meaning.
The Lean L2 interpreter (`Core/L2.lean`) *is* the independent reference interpreter that the
differential check compares the real interpreter with (row for row, value for value, both
dialects).  The theorems below pin the documented rules as facts about that interpreter, for
every recipe, state and fuel.  Statements are fixed; helper lemmas live in `Proofs/L2.lean`.
-/
import SnowModel.Core.L2
import SnowModel.Proofs.L2
import SnowModel.Proofs.L2Ext

namespace SnowModel.Props.C03
open SnowModel.L2

/-- Output is append-only: whatever a statement list, template, row, field list or field
    definition does, the rows written before are still there, in place. -/
theorem out_append_only_stmts (fuel : Nat) (c c' : Ctx) (sts : List Stmt) (cont : Bool) (s s' : St)
    (h : execStmts fuel c sts cont s = .ok (c', s')) : ∃ ext, s'.out = s.out ++ ext := by
  obtain ⟨⟨ext, he, -⟩, -⟩ := (extAll fuel).2.2.2.2.2 _ _ _ _ _ _ h
  exact ⟨ext, he⟩

theorem out_append_only_template (fuel : Nat) (c : Ctx) (t : Template) (s s' : St) (r : Option Nat)
    (h : execTemplate fuel c t s = .ok (r, s')) : ∃ ext, s'.out = s.out ++ ext := by
  obtain ⟨⟨ext, he, -⟩, -⟩ := (extAll fuel).2.1 _ _ _ _ _ h
  exact ⟨ext, he⟩

theorem out_append_only_fields (fuel : Nat) (c : Ctx) (hd : Nat) (fs : List (String × FieldDef))
    (s s' : St) (h : execFields fuel c hd fs s = .ok ((), s')) : ∃ ext, s'.out = s.out ++ ext := by
  obtain ⟨⟨ext, he, -⟩, -⟩ := (extAll fuel).2.2.2.2.1 _ _ _ _ _ _ h
  exact ⟨ext, he⟩

/-- **Nested objects before the row that contains them, friends after it**: one execution of the
    row body of a visible table appends to the output, in this order, (1) everything the row's
    field definitions emit (objects nested in fields), (2) the row itself, (3) everything its
    `friends` emit. -/
theorem row_output_order (fuel : Nat) (c c' : Ctx) (t : Template) (i h : Nat) (s s' : St)
    (hvis : ¬ t.table.startsWith "__")
    (hr : execRow (fuel + 1) c t i s = .ok ((h, c'), s')) :
    ∃ nestedOut own friendsOut,
      s'.out = s.out ++ nestedOut ++ [own] ++ friendsOut ∧ own.table = t.table
      ∧ (∃ s5 s6, execFields fuel { c with obj := some h } h t.fields s5 = .ok ((), s6)
            ∧ s5.out = s.out ∧ s6.out = s.out ++ nestedOut)
      ∧ (∃ s8, execStmts fuel { c with obj := some h } t.friends true s8 = .ok (c', s')
            ∧ s8.out = s.out ++ nestedOut ++ [own]) := by
  rw [execRow_succ] at hr
  split at hr
  · cases hr
  · next u6 s6 hf =>
    split at hr
    · cases hr
    · next u8 s8 hw =>
      split at hr
      · cases hr
      · next c2 s9 hs =>
        simp only [Except.ok.injEq, Prod.mk.injEq] at hr
        obtain ⟨⟨rfl, rfl⟩, rfl⟩ := hr
        obtain ⟨⟨nestedOut, hn, -⟩, -⟩ := (extAll fuel).2.2.2.2.1 _ _ _ _ _ _ hf
        obtain ⟨⟨friendsOut, hfr, -⟩, -⟩ := (extAll fuel).2.2.2.2.2 _ _ _ _ _ _ hs
        rw [regState_out] at hn
        unfold writeRow at hw
        rw [if_neg hvis] at hw
        split at hw
        · cases hw
        · next fs s7 hc =>
          simp only [Except.ok.injEq, Prod.mk.injEq] at hw
          obtain ⟨-, rfl⟩ := hw
          have h7 := (canonFields_same _ hc).1
          refine ⟨nestedOut, { table := t.table, fields := fs }, friendsOut, ?_, rfl, ?_, ?_⟩
          · rw [hfr]; simp only [h7, hn]
          · exact ⟨_, _, hf, regState_out s t i, hn⟩
          · exact ⟨_, hs, by simp only [h7, hn]⟩

/-- A hidden table's row body emits only what its fields and friends emit (children of a hidden
    object are still emitted; the hidden row itself is not). -/
theorem hidden_row_output (fuel : Nat) (c c' : Ctx) (t : Template) (i h : Nat) (s s' : St)
    (hhid : t.table.startsWith "__")
    (hr : execRow (fuel + 1) c t i s = .ok ((h, c'), s')) :
    ∃ nestedOut friendsOut, s'.out = s.out ++ nestedOut ++ friendsOut
      ∧ (∃ s5 s6, execFields fuel { c with obj := some h } h t.fields s5 = .ok ((), s6)
            ∧ s5.out = s.out ∧ s6.out = s.out ++ nestedOut)
      ∧ (∃ s8, execStmts fuel { c with obj := some h } t.friends true s8 = .ok (c', s')
            ∧ s8.out = s.out ++ nestedOut) := by
  rw [execRow_succ] at hr
  split at hr
  · cases hr
  · next u6 s6 hf =>
    split at hr
    · cases hr
    · next u8 s8 hw =>
      split at hr
      · cases hr
      · next c2 s9 hs =>
        simp only [Except.ok.injEq, Prod.mk.injEq] at hr
        obtain ⟨⟨rfl, rfl⟩, rfl⟩ := hr
        obtain ⟨⟨nestedOut, hn, -⟩, -⟩ := (extAll fuel).2.2.2.2.1 _ _ _ _ _ _ hf
        obtain ⟨⟨friendsOut, hfr, -⟩, -⟩ := (extAll fuel).2.2.2.2.2 _ _ _ _ _ _ hs
        rw [regState_out] at hn
        unfold writeRow at hw
        rw [if_pos hhid] at hw
        simp only [Except.ok.injEq, Prod.mk.injEq] at hw
        obtain ⟨-, rfl⟩ := hw
        refine ⟨nestedOut, friendsOut, ?_, ?_, ?_⟩
        · rw [hfr, hn]
        · exact ⟨_, _, hf, regState_out s t i, hn⟩
        · exact ⟨_, hs, hn⟩

/-- **count**: a template without `count` executes its row body exactly once (child_index 0). -/
theorem count_default_one (fuel : Nat) (parent : Ctx) (t : Template) (s : St) (hc : t.count = none) :
    execTemplate (fuel + 1) parent t s = execRows fuel { obj := none, vars := parent.vars } t 0 1 none s := by
  rw [execTemplate_succ, hc]

/-- **count 0 is allowed** and emits nothing at this level. -/
theorem rows_zero (fuel : Nat) (c : Ctx) (t : Template) (i : Nat) (last : Option Nat) (s : St) :
    execRows (fuel + 1) c t i i last s = .ok (last, s) := by
  rw [execRows_succ, if_pos (Nat.le_refl i)]

/-- **child_index runs 0..count-1 in order**: executing rows `i .. n-1` is executing row `i` with
    `child_index = i` (a row whose `_child_index` is `i`), then rows `i+1 .. n-1`. -/
theorem rows_step (fuel : Nat) (c : Ctx) (t : Template) (i n : Nat) (last : Option Nat) (s : St)
    (hlt : i < n) :
    execRows (fuel + 1) c t i n last s =
      (match execRow fuel { c with vars := aset c.vars "child_index" (.int i) } t i s with
       | .error e => .error e
       | .ok ((h, c2), s1) => execRows fuel c2 t (i + 1) n (some h) s1) := by
  rw [execRows_succ, if_neg (by omega)]
  rfl

/-- the row created by `execRow … i` carries `_child_index = i`, the table of its template, and an
    id; it is a new row (handle = number of rows before). -/
theorem row_created (fuel : Nat) (c c' : Ctx) (t : Template) (i h : Nat) (s s' : St)
    (hr : execRow (fuel + 1) c t i s = .ok ((h, c'), s')) :
    h = s.rows.length ∧ h < s'.rows.length := by
  rw [execRow_succ] at hr
  split at hr
  · cases hr
  · next u6 s6 hf =>
    split at hr
    · cases hr
    · next u8 s8 hw =>
      split at hr
      · cases hr
      · next c2 s9 hs =>
        simp only [Except.ok.injEq, Prod.mk.injEq] at hr
        obtain ⟨⟨rfl, rfl⟩, rfl⟩ := hr
        have h1 := ((extAll fuel).2.2.2.2.1 _ _ _ _ _ _ hf).2
        have h2 := (writeRow_ext hw).2
        have h3 := ((extAll fuel).2.2.2.2.2 _ _ _ _ _ _ hs).2
        rw [regState_rows] at h1
        exact ⟨rfl, by omega⟩

/-- **Fields are evaluated in declaration order, each stored before the next is evaluated**
    (so a formula sees the earlier fields of the same row). -/
theorem fields_step (fuel : Nat) (c : Ctx) (h : Nat) (name : String) (fd : FieldDef)
    (rest : List (String × FieldDef)) (s : St) :
    execFields (fuel + 1) c h ((name, fd) :: rest) s =
      (match renderFd fuel c fd s with
       | .error e => .error e
       | .ok (v, s1) => execFields fuel c h rest (setRowValue s1 h name v)) := by
  exact execFields_cons fuel c h name fd rest s

/-- **Name resolution: the most recently created row of the current iteration wins**, then the
    just_once singleton, then a forward-reference slot (the order of `Globals.object_names`,
    pinned by `Props/L1Bridge.lookup_order`). -/
theorem latest_row_wins (s : St) (n : String) :
    objectName s n =
      (match aget s.seen n with
       | some h => some (.row h)
       | none => match aget s.nick n with
         | some h => some (.row h)
         | none => match aget s.pTable n with
           | some h => some (.row h)
           | none => match aget s.pNick n with
             | some h => some (.row h)
             | none => (aget s.slots n).map (fun _ => Val.slot n)) := by
  unfold objectName
  cases aget s.seen n <;> cases aget s.nick n <;> cases aget s.pTable n <;> cases aget s.pNick n <;> cases aget s.slots n <;> rfl

/-- **Formula scope**: variables shadow the fields of the current row, which shadow object names,
    which shadow options (the override order of `simple_field_vars`, pinned by
    `C03Bridge.fieldVars_order`). -/
theorem scope_var_first (s : St) (c : Ctx) (n : String) (v : Val) (hres : ¬ reservedNames.contains n)
    (hv : aget c.vars n = some v) : lookupName s c n = .ok (some v) := by
  unfold lookupName
  rw [if_neg hres, hv]

theorem scope_field_before_object (s : St) (c : Ctx) (n : String) (h : Nat) (v : Val)
    (hres : ¬ reservedNames.contains n) (hvar : aget c.vars n = none) (ho : c.obj = some h)
    (hf : aget (rowData s h).values n = some v) : lookupName s c n = .ok (some v) := by
  unfold lookupName
  rw [if_neg hres, hvar, ho]
  simp only [Option.bind_some, hf]

theorem scope_object_before_option (s : St) (c : Ctx) (n : String) (v : Val)
    (hres : ¬ reservedNames.contains n) (hvar : aget c.vars n = none)
    (hf : c.obj.bind (fun h => aget (rowData s h).values n) = none)
    (ho : objectName s n = some v) : lookupName s c n = .ok (some v) := by
  unfold lookupName
  rw [if_neg hres, hvar, hf, ho]

/-- **A variable is evaluated when its statement executes and is visible to the statements after
    it in the same list** (stored in the enclosing context). -/
theorem var_step (fuel : Nat) (c : Ctx) (name : String) (fd : FieldDef) (rest : List Stmt)
    (cont : Bool) (s : St) :
    execStmts (fuel + 1) c (.var name fd :: rest) cont s =
      (match renderFd fuel { obj := none, vars := c.vars } fd s with
       | .error e => .error e
       | .ok (v, s1) => execStmts fuel { c with vars := aset c.vars name v } rest cont s1) := by
  exact execStmts_var fuel c name fd rest cont s

/-- A template's own context starts from a *snapshot* of the enclosing context's variables: what
    the template (its count, fields, friends) does to variables is invisible to the statements
    that follow it. -/
theorem template_does_not_leak_vars (fuel : Nat) (c : Ctx) (t : Template) (rest : List Stmt)
    (cont : Bool) (s : St) (hgo : ¬ (t.justOnce ∧ cont)) :
    execStmts (fuel + 1) c (.obj t :: rest) cont s =
      (match execTemplate fuel c t s with
       | .error e => .error e
       | .ok (_, s1) => execStmts fuel c rest cont s1) := by
  rw [execStmts_obj, if_neg hgo]
  rfl

/-- **v2 coercion** (`look_for_number`): digit strings become integers, strings starting with `0`
    (other than `0.`) stay strings. -/
theorem v2_digits_become_int (a : String) (hne : a.toList ≠ [])
    (hd : a.toList.all isDigit) (hz : a.toList.head? ≠ some '0') :
    lookForNumber a = .ok (.int a.toNat!) := by
  unfold lookForNumber
  simp only
  cases hcs : a.toList with
  | nil => exact absurd hcs hne
  | cons c0 rest =>
    rw [hcs] at hd hz
    have h0 : c0 ≠ '0' := by
      intro h; apply hz; simp [h]
    have hall : (c0 :: rest).all (fun c => isDigit c ∨ c = '.') = true := by
      rw [List.all_eq_true] at hd ⊢
      intro x hx
      simp [hd x hx]
    have hdots : ((c0 :: rest).filter (· = '.')).length = 0 := by
      rw [List.length_eq_zero_iff, List.filter_eq_nil_iff]
      intro x hx
      rw [List.all_eq_true] at hd
      have := hd x hx
      simp only [decide_eq_true_eq]
      rintro rfl
      revert this; decide
    simp only [h0, false_and, if_false, hall, if_true, hdots]

theorem v2_leading_zero_stays_string (rest : List Char) (h : rest.head? ≠ some '.') :
    lookForNumber (String.ofList ('0' :: rest)) = .ok (.str (String.ofList ('0' :: rest))) := by
  unfold lookForNumber
  simp only [String.toList_ofList]
  rw [if_pos ⟨trivial, h⟩]

/-! ### Non-vacuity: a concrete program through the whole interpreter -/

def demo : Recipe :=
  { v3 := false, options := [("o1", .int 2)],
    statements :=
      [.obj (.mk "A" (some "n1") false (some (.tmpl [.expr (.name "o1")]))
          [("f1", .tmpl [.expr (.name "child_index")]),
           ("kid", .nested (.mk "B" none false none [("p", .ref ["A"])] [])),
           ("f2", .tmpl [.text "x", .expr (.add (.name "id") (.int 1))])]
          [.obj (.mk "C" none false none [("r", .ref ["n1"])] [])])] }

-- evaluated by the compiler: a test that a real run inhabits the hypotheses above
#guard (runChain 200 demo [1]).status == "ok"
#guard (runChain 200 demo [1]).out.map (fun r => (r.table, r.fields.map (·.1))) ==
      [("B", ["id", "p"]), ("A", ["id", "f1", "kid", "f2"]), ("C", ["id", "r"]),
       ("B", ["id", "p"]), ("A", ["id", "f1", "kid", "f2"]), ("C", ["id", "r"])]

end SnowModel.Props.C03
