/-
C05 — the continuation file is a complete, re-loadable snapshot of persistent state.

Model: `SnowModel.Persist` (Core/Persist.lean): `saveFile Y g` = `yaml.dump(g.__getstate__(), Dumper=
SnowfakeryDumper)` as a tree of scalar tokens with every mapping key-sorted, `loadFile Y doc` =
`hydrate(Globals, yaml.safe_load(doc))`.  The YAML scalar layer `Y` (one scalar → token → scalar) is a
parameter; its contract `Lawful Y : ∀ v, Y.load (Y.dump v) = v` over the scalar universe (str incl.
YAML-hostile, int of any size, float, bool, null, date, datetime, decimal) is a HYPOTHESIS of the theorems and
is what the correspondence check exercises against PyYAML on every run.

Statements quantify over every state `g` (any number of tables, nicknames, rows, fields, values,
dependencies) and every chain length.

Defects of the real code that the model keeps faithfully:
  D04  `save_total` is refuted (NicknameSlot values have no representer)            → `save_total_partial`
  D03  the full-snapshot statement is refuted (row-valued fields are dropped)       → `persist_roundtrip_partial`
  D49  `history_complete` is refuted (the row history itself is not in the file)
Repaired since the first version of this file, and proved at full strength now:
  D04b Decimal values are scalars of the YAML layer (cf894eb)  → `save_total_scalars`, `decimal_roundtrip`
  D48  the history restore de-duplicates on (table, id) (5da9efa) → `resave_complete`
-/
import SnowModel.Core.Persist
import SnowModel.Proofs.C05
import SnowModel.Proofs.C05b
import SnowModel.Proofs.C05c

namespace SnowModel.Props.C05
open SnowModel.Persist

/-! ### 1. writing the file -/

/-- **When does the save succeed?**  Exactly when no persistent row holds a value without a
    representer (row-valued fields do not count: they are dropped before the dumper sees them). -/
theorem save_ok_iff {τ : Type} (Y : Yaml τ) (g : G) :
    (∃ doc, saveFile Y g = .ok doc) ↔ Storable g := by
  rw [saveFile_eq]
  have hN := dumpRows_ok_iff Y (sortD g.pNick)
  have hT := dumpRows_ok_iff Y (sortD g.pTable)
  have key : ∀ l : Dict Row, (∀ kr ∈ sortD l, ∀ kv ∈ keptValues kr.2.values, kv.2.isSc = true) ↔
      (∀ kr ∈ l, kr.2.storable = true) := by
    intro l
    constructor
    · intro h kr hkr
      exact (kept_isSc_iff_storable kr.2).mp (h kr ((mem_sortD l kr).mpr hkr))
    · intro h kr hkr
      exact (kept_isSc_iff_storable kr.2).mpr (h kr ((mem_sortD l kr).mp hkr))
  unfold Storable
  rw [← key g.pNick, ← key g.pTable, ← hN, ← hT]
  constructor
  · rintro ⟨doc, h⟩
    cases h1 : dumpRows Y (mapD rowGetstate (sortD g.pNick)) with
    | error e => rw [h1] at h; cases h
    | ok rn =>
      cases h2 : dumpRows Y (mapD rowGetstate (sortD g.pTable)) with
      | error e => rw [h1, h2] at h; cases h
      | ok rt => exact ⟨⟨rn, rfl⟩, ⟨rt, rfl⟩⟩
  · rintro ⟨⟨rn, h1⟩, ⟨rt, h2⟩⟩
    rw [h1, h2]
    exact ⟨_, rfl⟩

/-
FULL STATEMENT (property text: "whenever a run completes, writing its continuation file also
succeeds"), false of the unchanged tree:

  theorem save_total (Y) (g : G) : ∃ doc, saveFile Y g = .ok doc
-/
/-- D04: a just_once row holding a stored forward reference (`NicknameSlot`) cannot be written. -/
theorem save_total_refuted :
    ∃ g : G, ∀ {τ : Type} (Y : Yaml τ), saveFile Y g = .error (.cannotRepresent "NicknameSlot") :=
  ⟨{ emptyG with pNick := [("a", ⟨"A", [("id", .sc (.int 1)), ("b", .slot "B")]⟩)] },
    fun _ => rfl⟩

/-- the save succeeds for every state whose persistent rows hold scalars and rows only -/
theorem save_total_partial {τ : Type} (Y : Yaml τ) (g : G) (h : Storable g) :
    ∃ doc, saveFile Y g = .ok doc :=
  (save_ok_iff Y g).mpr h

/-- every value is a scalar of the universe (str, int, float, bool, null, date, datetime, **decimal**)
    or a row -/
def ScalarsOnly (g : G) : Prop :=
  (∀ kr ∈ g.pNick, ∀ kv ∈ kr.2.values, (∃ v, kv.2 = .sc v) ∨ kv.2.isRow = true) ∧
  (∀ kr ∈ g.pTable, ∀ kv ∈ kr.2.values, (∃ v, kv.2 = .sc v) ∨ kv.2.isRow = true)

/-- **save_total on the documented value universe** (D04b repaired): whatever scalars — Decimals
    included — and row references the persistent rows hold, the file can be written. -/
theorem save_total_scalars {τ : Type} (Y : Yaml τ) (g : G) (h : ScalarsOnly g) :
    ∃ doc, saveFile Y g = .ok doc := by
  apply save_total_partial
  have key : ∀ r : Row, (∀ kv ∈ r.values, (∃ v, kv.2 = .sc v) ∨ kv.2.isRow = true) → r.storable = true := by
    intro r hr
    simp only [Row.storable, List.all_eq_true]
    intro kv hkv
    rcases hr kv hkv with ⟨v, hv⟩ | hrow
    · rw [hv]; rfl
    · cases hv : kv.2 with
      | sc v => rfl
      | row a b => rfl
      | slot a => rw [hv] at hrow; cases hrow
      | other a => rw [hv] at hrow; cases hrow
  exact ⟨fun kr hkr => key kr.2 (h.1 kr hkr), fun kr hkr => key kr.2 (h.2 kr hkr)⟩

/-! ### 2. reading it back -/

/-- **Round trip.**  Under the scalar contract, loading a file that could be written gives back the
    state: id counters, `start_ids` re-derived (`last + 1`), every persistent row reachable by
    nickname and by table name with each remaining field's value *and type*, the nickname→table
    bindings, `today`, and the dependencies in their order — every mapping in key order (`canon`),
    and minus the row-valued fields that `ObjectRow.__getstate__` drops (`strip`, D03). -/
theorem persist_roundtrip {τ : Type} (Y : Yaml τ) (hY : Lawful Y) (g : G) (doc : StateOf τ)
    (hn : g.deps.Nodup) (h : saveFile Y g = .ok doc) :
    loadFile Y doc = .ok (canon (strip g)) := by
  rw [saveFile_eq] at h
  cases h1 : dumpRows Y (mapD rowGetstate (sortD g.pNick)) with
  | error e => rw [h1] at h; cases h
  | ok rn =>
    cases h2 : dumpRows Y (mapD rowGetstate (sortD g.pTable)) with
    | error e => rw [h1, h2] at h; cases h
    | ok rt =>
      rw [h1, h2] at h
      cases h
      rw [loadFile_doc, dumpRows_roundtrip Y hY _ rn h1, dumpRows_roundtrip Y hY _ rt h2]
      have hd := depsSetstate_nodup [] g.deps (by simpa using hn)
      simp only [List.nil_append] at hd
      rw [hd]
      simp only [canon, strip, hY g.today, sortD_mapD, mapD_mapD]

/-
FULL STATEMENT ("loading that file restores … every just_once row … with each field's value"),
false of the unchanged tree (D03):

  theorem full_snapshot (Y) (hY : Lawful Y) (g doc) (hn : g.deps.Nodup)
      (h : saveFile Y g = .ok doc) : loadFile Y doc = .ok (canon g)
-/
/-- D03: a just_once row that stores a reference to another row loses that field. -/
theorem full_snapshot_refuted :
    ∃ g : G, g.deps.Nodup ∧ ∀ {τ : Type} (Y : Yaml τ), Lawful Y →
      ∃ doc, saveFile Y g = .ok doc ∧ loadFile Y doc ≠ .ok (canon g) ∧
        ∃ g', loadFile Y doc = .ok g' ∧
          (lookupD "qq" g.pNick).bind (fun r => lookupD "p" r.values) = some (.row "P" 1) ∧
          (lookupD "qq" g'.pNick).bind (fun r => lookupD "p" r.values) = none := by
  let g0 : G :=
    { emptyG with
      today := .date "2024-01-01"
      pNick := [("qq", ⟨"Q", [("id", .sc (.int 1)), ("p", .row "P" 1)]⟩)] }
  refine ⟨g0, by simp [g0, emptyG], ?_⟩
  intro τ Y hY
  have hs : Storable g0 := by
    constructor
    · intro kr hkr
      simp [g0] at hkr
      subst hkr
      rfl
    · intro kr hkr
      simp [g0, emptyG] at hkr
  obtain ⟨doc, hdoc⟩ := save_total_partial Y g0 hs
  have hl := persist_roundtrip Y hY g0 doc (by simp [g0, emptyG]) hdoc
  refine ⟨doc, hdoc, ?_, canon (strip g0), hl, ?_, ?_⟩
  · rw [hl]
    intro hc
    have := congrArg (fun r => match r with | .ok (x : G) => x.pNick | .error _ => []) hc
    simp [canon, strip, g0, mapD, sortD, insertD, stripRow, canonRow, keptValues, Val.isRow] at this
  · simp [g0, lookupD]
  · simp [canon, strip, g0, mapD, sortD, insertD, stripRow, canonRow, keptValues, Val.isRow, lookupD]

/-- **Full snapshot** for states without row-valued fields in persistent rows: the file restores
    exactly the state (every mapping in key order). -/
theorem persist_roundtrip_partial {τ : Type} (Y : Yaml τ) (hY : Lawful Y) (g : G) (doc : StateOf τ)
    (hn : g.deps.Nodup) (hr : NoRowVals g) (h : saveFile Y g = .ok doc) :
    loadFile Y doc = .ok (canon g) := by
  rw [persist_roundtrip Y hY g doc hn h]
  have key : ∀ l : Dict Row, (∀ kr ∈ l, kr.2.noRowVals = true) → mapD stripRow l = l := by
    intro l hl
    unfold mapD
    conv => rhs; rw [← List.map_id l]
    apply List.map_congr_left
    intro kr hkr
    have := hl kr hkr
    simp only [Row.noRowVals, List.all_eq_true] at this
    have hk : keptValues kr.2.values = kr.2.values :=
      keptValues_of_noRow _ (fun kv hkv => by simpa using this kv hkv)
    simp [stripRow, hk]
  simp only [strip, key g.pNick hr.1, key g.pTable hr.2]

/-- `canon` only reorders: every lookup by key gives the same answer (Python dicts are looked up and
    compared regardless of order), rows are found under the same names … -/
theorem canon_lookup (g : G) (k : String)
    (h1 : (keysD g.pNick).Nodup) (h2 : (keysD g.pTable).Nodup)
    (h3 : (keysD g.lastUsed).Nodup) (h4 : (keysD g.nickTable).Nodup) :
    lookupD k (canon g).pNick = (lookupD k g.pNick).map canonRow ∧
    lookupD k (canon g).pTable = (lookupD k g.pTable).map canonRow ∧
    lookupD k (canon g).lastUsed = lookupD k g.lastUsed ∧
    lookupD k (canon g).startIds = (lookupD k g.lastUsed).map startIdOf ∧
    lookupD k (canon g).nickTable = lookupD k g.nickTable ∧
    (canon g).today = g.today ∧ (canon g).deps = g.deps := by
  refine ⟨?_, ?_, ?_, ?_, ?_, rfl, rfl⟩
  · simp only [canon]
    rw [lookupD_sortD _ _ (by rw [keysD_mapD]; exact h1), lookupD_mapD]
  · simp only [canon]
    rw [lookupD_sortD _ _ (by rw [keysD_mapD]; exact h2), lookupD_mapD]
  · exact lookupD_sortD _ _ h3
  · simp only [canon]
    rw [lookupD_mapD, lookupD_sortD _ _ h3]
  · exact lookupD_sortD _ _ h4

/-- … and every field of a row keeps its value and type. -/
theorem canonRow_lookup (r : Row) (f : String) (h : (keysD r.values).Nodup) :
    (canonRow r).table = r.table ∧ lookupD f (canonRow r).values = lookupD f r.values :=
  ⟨rfl, lookupD_sortD _ _ h⟩

/-! ### 2b. whatever the NAME of a field or of a table -/

theorem keptValues_lookup_sc (d : Dict Val) (f : String) (v : Sc) (h : lookupD f d = some (.sc v)) :
    lookupD f (keptValues d) = some (.sc v) := by
  induction d with
  | nil => cases h
  | cons hd t ih =>
    obtain ⟨k', x⟩ := hd
    simp only [lookupD] at h
    by_cases hk : f = k'
    · simp only [hk, if_true] at h
      cases h
      simp [keptValues, Val.isRow, lookupD, hk]
    · simp only [hk, if_false] at h
      have := ih h
      simp only [keptValues, List.filter_cons] at this ⊢
      split
      · simp only [lookupD, hk, if_false]; exact this
      · exact this

theorem keysD_keptValues_nodup (d : Dict Val) (h : (keysD d).Nodup) : (keysD (keptValues d)).Nodup :=
  List.Nodup.sublist ((List.filter_sublist (l := d)).map _) h

/-- **Every field, whatever it is called**: a scalar field `f` of the row known as `k` — `f` any
    string: hidden `__x`, `_legacy_code`, `_sf_update_key`, unicode, with spaces or dots — is read
    back under the same name with the same typed value.  (No condition on `f`: the only fields a
    continuation loses are the row-valued ones, D03.) -/
theorem field_roundtrip_any_name {τ : Type} (Y : Yaml τ) (hY : Lawful Y) (g g' : G) (doc : StateOf τ)
    (hn : g.deps.Nodup) (hs : saveFile Y g = .ok doc) (hl : loadFile Y doc = .ok g')
    (k : String) (r : Row) (hkeys : (keysD g.pNick).Nodup) (hk : lookupD k g.pNick = some r)
    (hf : (keysD r.values).Nodup) (f : String) (v : Sc) (hv : lookupD f r.values = some (.sc v)) :
    ∃ r', lookupD k g'.pNick = some r' ∧ r'.table = r.table ∧ lookupD f r'.values = some (.sc v) := by
  rw [persist_roundtrip Y hY g doc hn hs] at hl
  cases hl
  refine ⟨canonRow (stripRow r), ?_, rfl, ?_⟩
  · simp only [canon, strip]
    rw [lookupD_sortD _ _ (by rw [keysD_mapD, keysD_mapD]; exact hkeys), lookupD_mapD, lookupD_mapD, hk]
    rfl
  · simp only [canonRow, stripRow]
    rw [lookupD_sortD _ _ (keysD_keptValues_nodup _ hf)]
    exact keptValues_lookup_sc _ f v hv

/-- **Every table that has a counter**, whether or not it is a top-level template of the recipe
    (nested-only, friends-only and hidden tables are *not* in `nickTable`): its counter and its
    `start_id` are restored.  (No condition relating `t` to `g.nickTable`.) -/
theorem counter_roundtrip_any_table {τ : Type} (Y : Yaml τ) (hY : Lawful Y) (g g' : G) (doc : StateOf τ)
    (hn : g.deps.Nodup) (hs : saveFile Y g = .ok doc) (hl : loadFile Y doc = .ok g')
    (hkeys : (keysD g.lastUsed).Nodup) (t : String) :
    lookupD t g'.lastUsed = lookupD t g.lastUsed ∧
    lookupD t g'.startIds = (lookupD t g.lastUsed).map startIdOf := by
  rw [persist_roundtrip Y hY g doc hn hs] at hl
  cases hl
  constructor
  · exact lookupD_sortD _ _ hkeys
  · simp only [canon, strip]
    rw [lookupD_mapD, lookupD_sortD _ _ hkeys]

/-- **Aliasing is irrelevant**: the model's values carry no identity, so `saveFile` / `loadFile` are
    functions of the values alone; in particular when one scalar sits in two fields `f1`, `f2` of a row
    (in Python possibly the very same object: `today` used twice, a cached date, a variable) both
    fields are read back with that value.  Holds for every pair of names and every scalar kind. -/
theorem equal_fields_roundtrip {τ : Type} (Y : Yaml τ) (hY : Lawful Y) (g g' : G) (doc : StateOf τ)
    (hn : g.deps.Nodup) (hs : saveFile Y g = .ok doc) (hl : loadFile Y doc = .ok g')
    (k : String) (r : Row) (hkeys : (keysD g.pNick).Nodup) (hk : lookupD k g.pNick = some r)
    (hf : (keysD r.values).Nodup) (f1 f2 : String) (v : Sc)
    (h1 : lookupD f1 r.values = some (.sc v)) (h2 : lookupD f2 r.values = some (.sc v)) :
    ∃ r', lookupD k g'.pNick = some r' ∧ lookupD f1 r'.values = some (.sc v) ∧
      lookupD f2 r'.values = some (.sc v) := by
  obtain ⟨r1, hr1, _, hv1⟩ := field_roundtrip_any_name Y hY g g' doc hn hs hl k r hkeys hk hf f1 v h1
  obtain ⟨r2, hr2, _, hv2⟩ := field_roundtrip_any_name Y hY g g' doc hn hs hl k r hkeys hk hf f2 v h2
  rw [hr1] at hr2
  cases hr2
  exact ⟨r1, hr1, hv1, hv2⟩

/-! ### 3. load, then save again -/

/-- saving does not see the difference between a state and what a load gives back for it -/
theorem save_canon_strip {τ : Type} (Y : Yaml τ) (g : G) :
    saveFile Y (canon (strip g)) = saveFile Y g := by
  rw [saveFile_eq, saveFile_eq]
  simp only [canon, strip, sortD_idem, sortD_mapD]
  rw [mapD_mapD stripRow canonRow, mapD_mapD stripRow canonRow, dumpRows_canon, dumpRows_canon]

/-- **Idempotence**: "loading a file and saving it again without generating anything reproduces
    it" — the same tree of tokens, hence the same text. -/
theorem save_load_save {τ : Type} (Y : Yaml τ) (hY : Lawful Y) (g g' : G) (doc : StateOf τ)
    (hn : g.deps.Nodup) (h : saveFile Y g = .ok doc) (hl : loadFile Y doc = .ok g') :
    saveFile Y g' = .ok doc := by
  rw [persist_roundtrip Y hY g doc hn h] at hl
  cases hl
  rw [save_canon_strip, h]

/-- a loaded state is a fixed point of save-then-load -/
theorem cycle_fixpoint {τ : Type} (Y : Yaml τ) (hY : Lawful Y) (g g1 : G) (hn : g.deps.Nodup)
    (h : cycle Y g = .ok g1) : cycle Y g1 = .ok g1 ∧ g1.deps.Nodup := by
  unfold cycle at h
  cases hs : saveFile Y g with
  | error e => rw [hs] at h; cases h
  | ok doc =>
    rw [hs] at h
    simp only at h
    have hr := persist_roundtrip Y hY g doc hn hs
    have hg1 : g1 = canon (strip g) := by rw [hr] at h; cases h; rfl
    refine ⟨?_, by rw [hg1]; exact hn⟩
    unfold cycle
    rw [save_load_save Y hY g g1 doc hn hs h]
    exact h

/-- **Every chain of save/load steps**: after the first step nothing changes any more, and no later
    step can fail — a chain of `n + 1` steps ends in the state reached after one. -/
theorem chain_stable {τ : Type} (Y : Yaml τ) (hY : Lawful Y) (g g1 : G) (hn : g.deps.Nodup)
    (h : cycle Y g = .ok g1) (n : Nat) : chain Y (n + 1) g = .ok g1 := by
  obtain ⟨hfix, hn1⟩ := cycle_fixpoint Y hY g g1 hn h
  have aux : ∀ m, chain Y m g1 = .ok g1 := by
    intro m
    induction m with
    | zero => rfl
    | succ m ih => simp only [chain, hfix]; exact ih
  simp only [chain, h]
  exact aux n

/-- … and the chain completes exactly when the first save does -/
theorem chain_ok_iff {τ : Type} (Y : Yaml τ) (hY : Lawful Y) (g : G) (hn : g.deps.Nodup) (n : Nat) :
    (∃ g1, chain Y (n + 1) g = .ok g1) ↔ Storable g := by
  rw [← save_ok_iff Y g]
  constructor
  · rintro ⟨g1, h⟩
    simp only [chain, cycle] at h
    cases hs : saveFile Y g with
    | error e => rw [hs] at h; cases h
    | ok doc => exact ⟨doc, rfl⟩
  · rintro ⟨doc, hs⟩
    have hc : cycle Y g = .ok (canon (strip g)) := by
      unfold cycle; rw [hs]; exact persist_roundtrip Y hY g doc hn hs
    exact ⟨_, chain_stable Y hY g _ hn hc n⟩

/-! ### 4. the scalar contract is needed (and satisfiable) -/

/-- the identity layer is lawful: the hypotheses of the theorems above are satisfiable -/
def idYaml : Yaml Sc := ⟨id, id⟩
theorem idYaml_lawful : Lawful idYaml := fun _ => rfl

/-- a layer that writes strings unquoted and resolves `"12"` as an int: not lawful … -/
def naiveYaml : Yaml String :=
  ⟨fun v => match v with | .str s => s | .int i => toString i | _ => "~",
   fun t => if t = "12" then .int 12 else .str t⟩

/-- … and with it a string field that looks like a number comes back as an int: the contract is
    what carries "strings that look like numbers stay strings" -/
theorem roundtrip_needs_contract :
    ∃ g : G, g.deps.Nodup ∧ ∃ doc g', saveFile naiveYaml g = .ok doc ∧ loadFile naiveYaml doc = .ok g' ∧
      (lookupD "Q" g.pTable).bind (fun r => lookupD "s" r.values) = some (.sc (.str "12")) ∧
      (lookupD "Q" g'.pTable).bind (fun r => lookupD "s" r.values) = some (.sc (.int 12)) := by
  refine ⟨{ emptyG with pTable := [("Q", ⟨"Q", [("s", .sc (.str "12"))]⟩)] }, ?_, ?_⟩
  · simp [emptyG]
  · refine ⟨_, _, rfl, rfl, ?_, ?_⟩ <;> decide

/-! ### 5. the row history of a continued run -/

/-- every persistent row known by a nickname, in a table with history, is put back -/
theorem resave_nick (g : G) (keep : List String) (k : String) (r : Row)
    (h : (k, r) ∈ g.pNick) (hk : r.table ∈ keep) : restored g keep r.table r.id? = true := by
  simp only [restored, resaved, List.any_eq_true, List.mem_filter, List.mem_append, List.mem_map]
  refine ⟨(r.table, some k, r), ⟨Or.inl ⟨(k, r), h, rfl⟩, by simpa using hk⟩, by simp⟩

/-- **resave_complete** (D48 repaired): every persistent row known by table name, in a table with
    history, is back in the row history of a continued run — either through its own entry or
    through the nicknamed row with the same (table, id). -/
theorem resave_complete (g : G) (keep : List String) (k : String) (r : Row)
    (h : (k, r) ∈ g.pTable) (hk : k ∈ keep) : restored g keep k r.id? = true := by
  by_cases hc : (g.pNick.map (fun kr => (kr.2.table, kr.2.id?))).contains (k, r.id?) = true
  · obtain ⟨kr, hkr, he⟩ := List.mem_map.mp (List.contains_iff_mem.mp hc)
    have h1 : kr.2.table = k := congrArg Prod.fst he
    have h2 : kr.2.id? = r.id? := congrArg Prod.snd he
    have := resave_nick g keep kr.1 kr.2 hkr (by rw [h1]; exact hk)
    rw [h1, h2] at this
    exact this
  · simp only [restored, resaved, List.any_eq_true, List.mem_filter, List.mem_append, List.mem_map]
    refine ⟨(k, none, r), ⟨Or.inr ⟨(k, r), ⟨h, by simpa using hc⟩, rfl⟩, by simpa using hk⟩, by simp⟩

/-- the former D48 witness (a nicknamed row of table P and a table-name row of table Q with the same
    id 1): the Q row is restored -/
example :
    restored { emptyG with
        pNick := [("par", ⟨"P", [("id", .sc (.int 1))]⟩)]
        pTable := [("P", ⟨"P", [("id", .sc (.int 1))]⟩), ("Q", ⟨"Q", [("id", .sc (.int 1))]⟩)] }
      ["Q"] "Q" (some (.sc (.int 1))) = true := by decide

/-- the history restore re-creates at most one row per nickname and per table name … -/
theorem resaved_length_le (g : G) (keep : List String) :
    (resaved g keep).length ≤ g.pNick.length + g.pTable.length := by
  unfold resaved
  refine Nat.le_trans (List.length_filter_le _ _) ?_
  simp only [List.length_append, List.length_map]
  exact Nat.add_le_add_left (List.length_filter_le _ _) _

/-
FULL STATEMENT ("everything later iterations can observe": every id that the restored counter of a
table with history lets `random_reference` draw is the id of a restored row), false of the unchanged
tree (D49):

  theorem history_complete (g keep t n) (ht : t ∈ keep) (hn : lookupD t g.lastUsed = some n)
      (i : Int) (h1 : 1 ≤ i) (h2 : i ≤ n) : restored g keep t (some (.sc (.int i))) = true
-/
/-- D49: … while the counters say how many rows exist: with two just_once rows of one table only the
    latest is in the file, and id 1 (still drawn by `random_reference`) has no row. -/
theorem history_complete_refuted :
    ∃ (g : G) (keep : List String) (t : String) (n i : Int),
      t ∈ keep ∧ lookupD t g.lastUsed = some n ∧ 1 ≤ i ∧ i ≤ n ∧
      restored g keep t (some (.sc (.int i))) = false :=
  ⟨{ emptyG with
      lastUsed := [("S", 2)]
      pNick := [("ss", ⟨"S", [("id", .sc (.int 2))]⟩)]
      pTable := [("S", ⟨"S", [("id", .sc (.int 2))]⟩)] },
   ["S"], "S", 2, 1, by decide, by decide, by decide, by decide, by decide⟩

/-- **Decimal round trip** (D04b repaired): a Decimal field is written and read back as a Decimal
    with the same `str` token (`Decimal('1.10')` stays `'1.10'`) — the former `save_total_refuted`
    witness, for every lawful layer. -/
theorem decimal_roundtrip {τ : Type} (Y : Yaml τ) (hY : Lawful Y) :
    let g : G := { emptyG with pTable := [("Q", ⟨"Q", [("id", .sc (.int 1)), ("price", .sc (.decimal "1.10"))]⟩)] }
    ∃ doc g', saveFile Y g = .ok doc ∧ loadFile Y doc = .ok g' ∧
      (lookupD "Q" g'.pTable).bind (fun r => lookupD "price" r.values) = some (.sc (.decimal "1.10")) := by
  intro g
  have hs : Storable g := by
    constructor
    · intro kr hkr; simp [g, emptyG] at hkr
    · intro kr hkr
      simp [g] at hkr
      subst hkr
      rfl
  obtain ⟨doc, hdoc⟩ := save_total_partial Y g hs
  have hl := persist_roundtrip Y hY g doc (by simp [g, emptyG]) hdoc
  refine ⟨doc, _, hdoc, hl, ?_⟩
  simp [canon, strip, g, emptyG, mapD, sortD, insertD, stripRow, canonRow, keptValues, Val.isRow, lookupD]

/-! ### Non-vacuity: a state with hostile strings, a big int, two tables, a dependency -/

def exG : G :=
  { lastUsed := [("Q", 1), ("A", 3), ("KidC", 5)], startIds := [("Q", 1), ("A", 1), ("KidC", 1)],
    pNick := [("qq", ⟨"Q", [("id", .sc (.int 1)), ("s", .sc (.str "12")), ("n", .sc (.str "null")),
                            ("big", .sc (.int 1180591620717411303424)), ("b", .sc (.bool true)),
                            ("d", .sc (.date "2024-02-29")), ("z", .sc .null), ("f", .sc (.float "1.5")),
                            ("dec", .sc (.decimal "1.10")),
                            ("__h", .sc (.int 7)), ("_legacy_code", .sc (.str "abc"))]⟩)],
    pTable := [("Q", ⟨"Q", [("id", .sc (.int 1)), ("s", .sc (.str "12"))]⟩)],
    nickTable := [("qq", "Q"), ("Q", "Q"), ("A", "A")], today := .date "2024-03-01",
    deps := [⟨"A", "Q", "q"⟩] }

example : ∃ g1, cycle idYaml exG = .ok g1 ∧ g1 = canon exG ∧ g1 ≠ exG ∧
    lookupD "s" ((lookupD "qq" g1.pNick).getD default).values = some (.sc (.str "12")) ∧
    lookupD "A" g1.startIds = some 4 ∧
    -- a hidden field, an underscore field, and the counter of a table that is not in `nickTable`
    lookupD "__h" ((lookupD "qq" g1.pNick).getD default).values = some (.sc (.int 7)) ∧
    lookupD "_legacy_code" ((lookupD "qq" g1.pNick).getD default).values = some (.sc (.str "abc")) ∧
    lookupD "KidC" g1.lastUsed = some 5 ∧ lookupD "KidC" exG.nickTable = none := by
  refine ⟨_, rfl, by decide, by decide, by decide, by decide, by decide, by decide, by decide, by decide⟩

example : chain idYaml 4 exG = .ok (canon exG) :=
  chain_stable idYaml idYaml_lawful exG _ (by decide) rfl 3

example : Storable exG ∧ NoRowVals exG := by
  constructor <;> constructor <;> decide

end SnowModel.Props.C05
