/-
C17 — bridging lemmas: the definitions regenerated from the Python AST on every run
(`Gen.IterProtocol.*`, `Gen.Datasets.*`, `Gen.ForEach.*`, `Gen.UpdateMode.*`) coincide with what
the hand-written model `SnowModel.DsIter` assumes.  A change of the iterator protocol, of a
default, of the mode wiring, of the for_each evaluation or of the update-mode rewrite changes a
generated file and one of these lemmas stops type-checking.
-/
import SnowModel.Core.DsIter
import SnowModel.Generated.IterProtocol
import SnowModel.Generated.Datasets
import SnowModel.Generated.ForEach
import SnowModel.Generated.UpdateMode

namespace SnowModel.Props.C17Bridge
open SnowModel.DsIter

/-! #### `PluginResultIterator.next` -/

/-- the regenerated body of `PluginResultIterator.next` is the program the model was written from -/
theorem next_body_parses : parseProg Gen.IterProtocol.nextTokens = some nextProgModel := by decide

/-- …and the big-step semantics of that program is the model function `next`, for every source
    and every iterator state -/
theorem next_is_pinned_program {α : Type} (src : Src α) (it : Iter α) :
    exec src nextProgModel it = ((next src it).1.toRes, (next src it).2) := by
  cases it with
  | mk rep p c =>
    cases p with
    | cons x xs => rfl
    | nil =>
      cases rep with
      | false => rfl
      | true =>
        simp only [nextProgModel, exec, nextResult, evalCond, next, start]
        cases src c <;> rfl

/-- both together: whatever program the current source parses to, it computes `next` -/
theorem next_pinned {α : Type} (src : Src α) (it : Iter α) (p : Prog)
    (hp : parseProg Gen.IterProtocol.nextTokens = some p) :
    exec src p it = ((next src it).1.toRes, (next src it).2) := by
  rw [next_body_parses] at hp
  cases hp
  exact next_is_pinned_program src it

/-- `restart()` is `start()`; `__next__` is `next()`; `iter(x)` is `x`; the constructor stores the flag -/
theorem restart_is_start : Gen.IterProtocol.restartBody = ["self.start()"] := by decide
theorem dunder_next_is_next : Gen.IterProtocol.dunderNextBody = ["return self.next()"] := by decide
theorem dunder_iter_is_self : Gen.IterProtocol.dunderIterBody = ["return self"] := by decide
theorem init_stores_repeat : Gen.IterProtocol.initBody = ["self.repeat = repeat"] := by decide

/-- a memorable function (`Dataset.iterate`, `Dataset.shuffle`) yields one object per call site
    (kept for the whole run), except in a recalculating context where every call builds a new one -/
theorem memorable_wiring :
    Gen.IterProtocol.memorableRecalcTest = "context.interpreter.current_context.recalculate_every_time"
    ∧ Gen.IterProtocol.memorableRecalcBody = ["return func(self, *args, **kwargs)"]
    ∧ Gen.IterProtocol.memorableUserKey
        = "kwargs.get('name') or (context.unique_context_identifier, tuple(args), tuple(kwargs.items()))"
    ∧ Gen.IterProtocol.memorableKey = "(func.__module__, func.__name__, user_key)"
    ∧ Gen.IterProtocol.memorableStore = "context.interpreter.get_contextual_state"
    ∧ Gen.IterProtocol.memorableStoreArgs
        = [("make_state_func", "lambda: func(self, *args, **kwargs)"), ("name", "key"),
           ("parent", "kwargs.get('parent', None)"), ("reset_every_iteration", "False")] := by
  decide

/-! #### datasets.py -/

/-- `next_result()` takes the next element of the generator built by `start()` -/
theorem next_result_body : Gen.Datasets.nextResultBody = ["return next(self.results)"] := by decide

theorem class_hierarchy : Gen.Datasets.baseClasses =
    ["DatasetIteratorBase(PluginResultIterator)", "SQLDatasetIterator(DatasetIteratorBase)",
     "SQLDatasetLinearIterator(SQLDatasetIterator)", "SQLDatasetRandomPermutationIterator(SQLDatasetIterator)",
     "CSVDatasetLinearIterator(DatasetIteratorBase)",
     "CSVDatasetRandomPermutationIterator(CSVDatasetLinearIterator)"] := by decide

/-- constructors store the flag and perform the first `start()` (model: `create`) -/
theorem constructors_start :
    Gen.Datasets.baseInitBody = ["self.cleanup = ExitStack()", "super().__init__(repeat)"]
    ∧ Gen.Datasets.csvInitBody.getLast? = some "self.start()"
    ∧ Gen.Datasets.csvInitBody.head? = some "super().__init__(repeat)"
    ∧ Gen.Datasets.sqlInitBody = ["self.connection = engine.connect()", "self.table = table",
        "super().__init__(repeat)", "self.start()"] := by decide

/-- a linear pass = the file from the top, in file order (model: `linearSrc`) -/
theorem csv_linear_start : Gen.Datasets.csvLinearStart =
    ["assert self.file", "self.file.seek(0)", "d = DictReader(self.file)",
     "plugin_result = self.plugin_result", "self.results = (plugin_result(row) for row in d)"] := by decide

/-- a shuffled pass = all rows of the file, shuffled by `random.shuffle` (model: `shuffledSrc`) -/
theorem csv_shuffle_start :
    Gen.Datasets.csvShuffleStart =
      ["assert self.file", "self.file.seek(0)", "d = DictReader(self.file)",
       "rows = [DatasetPluginResult(row) for row in d]", "shuffle(rows)", "self.results = iter(rows)"]
    ∧ Gen.Datasets.randomImports = ["from random import shuffle"] := by decide

theorem csv_plugin_result_last : Gen.Datasets.csvPluginResult.getLast? = some "return DatasetPluginResult(row)" := by
  decide

theorem sql_passes :
    Gen.Datasets.sqlStart =
      ["self.results = (DatasetPluginResult(dict(row._mapping)) for row in self.connection.execute(self.query()))"]
    ∧ Gen.Datasets.sqlLinearQuery = ["return select(self.table)"]
    ∧ Gen.Datasets.sqlShuffleQuery = ["return select(self.table).order_by(func.random())"] := by decide

/-- Nothing parsed outlives an iterator object (the premise of `Props.C17.consumers_independent`:
    the state of two consumers is a pair of states): the `datasets` dict of `DatasetBase` is
    created and never read or written again, the iterator constructors take only the data source
    and the flag, the module has no module-level variable; together with `csv_shuffle_start`
    (`rows = [… for row in d]` is a new list per `start()`). -/
theorem no_shared_rows :
    Gen.Datasets.datasetsAttrUses = ["self.datasets = {}"]
    ∧ Gen.Datasets.iteratorCtorParams =
        ["CSVDatasetLinearIterator(datasource,repeat)", "SQLDatasetIterator(engine,table,repeat)"]
    ∧ Gen.Datasets.moduleLevelAssignments = [] := by decide

/-- datasets repeat unless the recipe says otherwise -/
theorem default_repeat : Gen.Datasets.defaultRepeat = defaultRepeat
    ∧ Gen.Datasets.sqlDefaultRepeat = defaultRepeat ∧ Gen.Datasets.sqlDefaultMode = "linear" := by decide

/-- `Dataset.iterate` ↦ linear classes, `Dataset.shuffle` ↦ permutation classes, both memorable,
    the `repeat` flag is handed through unchanged -/
theorem mode_wiring :
    Gen.Datasets.functionModes = [("iterate", "memorable:linear"), ("shuffle", "memorable:shuffle")]
    ∧ Gen.Datasets.csvModes = [("linear", "CSVDatasetLinearIterator"), ("shuffle", "CSVDatasetRandomPermutationIterator")]
    ∧ Gen.Datasets.sqlModes = [("linear", "SQLDatasetLinearIterator"), ("shuffle", "SQLDatasetRandomPermutationIterator")]
    ∧ Gen.Datasets.sqlCall = "sql_dataset(dataset, tablename, iteration_mode, repeat)" := by decide

theorem get_dataset_instance : Gen.Datasets.getDatasetInstance =
    ["filename = plugin_context.field_vars()['template'].filename", "assert filename",
     "rootpath = Path(filename).parent",
     "dataset_instance = self._load_dataset(iteration_mode, rootpath, kwargs)",
     "return dataset_instance"] := by decide

/-- BOM is stripped, newline translation is off (multi-line quoted cells survive) -/
theorem csv_open : Gen.Datasets.csvOpenKeywords = [("encoding", "'utf-8-sig'"), ("newline", "''")] := by decide

/-! #### for_each -/

theorem for_each_flags :
    Gen.ForEach.forEachRepeat = forEachRepeat ∧ Gen.ForEach.forEachRecalculates = forEachRecalculates := by
  decide

/-- fix a90df5d: the recalculating flag is saved before it is switched on and put back in a
    `finally` right after the for_each expression has been rendered — the pinned fact that makes
    `consumeAt` independent of the placement (`Props.C17.site_kth_every_placement`).  On the
    code before the fix the pin is `false` and this lemma fails. -/
theorem for_each_flag_restored : Gen.ForEach.forEachFlagRestored = forEachFlagRestored := by decide

/-- evaluate: save the flag, set it, render inside `try` (so a new iterator is built for the
    for_each itself), restore the flag in `finally`, check the type, switch repetition off,
    return that object -/
theorem for_each_evaluate :
    Gen.ForEach.evaluateSkeleton = ["Assign", "Assign", "Try", "If", "Assign", "Return"]
    ∧ Gen.ForEach.evaluateAssignOrder =
        ["previous", "context.recalculate_every_time", "ret", "context.recalculate_every_time", "ret.repeat"]
    ∧ Gen.ForEach.evaluateRet = "self.expression.render(context)"
    ∧ Gen.ForEach.evaluateTypeCheck = ["not isinstance(ret, PluginResultIterator)"]
    ∧ Gen.ForEach.evaluateReturn = ["return ret"] := by decide

/-- the row loop is `zip(dataset iterator, itertools.count())` (model: `zipLoop`) -/
theorem row_loop :
    Gen.ForEach.rowLoopForEachBranch =
      ["iterators = [self._evaluate_for_each(context)]",
       "iterators.append(LoopIterator('child_index', itertools.count()))"]
    ∧ Gen.ForEach.rowLoopCountBranch =
      ["iterators = [LoopIterator('child_index', iter(range(self._evaluate_count(context))))]"]
    ∧ Gen.ForEach.masterIterator = "zip(*(it.iterator for it in iterators))"
    ∧ Gen.ForEach.rowLoopHeader = "for (i, next_value_list) in enumerate(master_iterator)"
    ∧ Gen.ForEach.rowLoopBody.getLast? = some "rc = self._generate_row(output_stream, context, i)"
    ∧ Gen.ForEach.evalToIterator =
      ["val = vardef.evaluate(context)", "try:", "return LoopIterator(vardef.varname, iterator)"] := by
  decide

/-- a field whose value is an iterator takes exactly one `next()`; exhaustion is a recipe error
    (model: `consume`) -/
theorem field_site :
    Gen.ForEach.fieldIterCheck = "isinstance(value, PluginResultIterator)"
    ∧ Gen.ForEach.fieldIterTry = ["value = value.next()"]
    ∧ Gen.ForEach.fieldIterHandler = [("StopIteration", "DataGenError")] := by decide

/-- The state key of a call site is the identity of its parsed object (`str(id(self))`): two
    `StructuredValue`s are two keys even when they come from the same source line (a macro
    included twice is parsed twice; two flow-style blocks on one line are two objects).  This is
    the injectivity hypothesis of `Props.C17.site_keyed_iter_kth`; a key made of file, line and
    function name breaks this lemma (and `shared_key_interferes` says what then happens). -/
theorem call_site_key_is_object_identity :
    Gen.ForEach.callSiteKey = "str(id(self))"
    ∧ Gen.ForEach.callSiteKeyUse = "context.unique_context_identifier = self.unique_context_identifier"
    ∧ Gen.ForEach.formulaKey = ["str(id(self))", "old_context_identifier"] := by decide

/-! #### update mode -/

/-- one non-repeating linear CSV iterator over the input file, created once, returned by every
    evaluation, bound to `input` by a `for_each` (model: `updateRun`) -/
theorem update_mode :
    Gen.UpdateMode.updateRepeat = updateRepeat
    ∧ Gen.UpdateMode.updateIterClass = "CSVDatasetLinearIterator"
    ∧ Gen.UpdateMode.updateIterSource = "update_input_file"
    ∧ Gen.UpdateMode.updateIterTarget = "self.datasource"
    ∧ Gen.UpdateMode.updateRender = ["return self.datasource"]
    ∧ Gen.UpdateMode.updateForEachClass = "ForEachVariableDefinition"
    ∧ Gen.UpdateMode.updateVar = "input"
    ∧ Gen.UpdateMode.updateForEachValue = "DataSourceValue()" := by decide

theorem update_passthrough :
    Gen.UpdateMode.passthroughTemplate = "${{input.%s}}" ∧ Gen.UpdateMode.passthroughArg = "attrname" := by
  decide

theorem update_shape :
    Gen.UpdateMode.updateGuards =
      ["len(statements) != 1", "not isinstance(template, ObjectTemplate)", "template.count_expr"]
    ∧ Gen.UpdateMode.updateReturn = ["return [template]"]
    ∧ Gen.UpdateMode.updateTrigger = ["update_input_file"] := by decide

end SnowModel.Props.C17Bridge
