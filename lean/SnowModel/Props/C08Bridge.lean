/-
C08 — bridging lemmas: what is regenerated from the Python source on every run
(`Gen.OutputStreams.*` from `output_streams.py`, `Gen.OutputApi.*` from `api.py`,
`Gen.OutputSchema.*` from `parse_recipe_yaml.py` / `data_generator_runtime*.py`) coincides with
the hand-written model `SnowModel.Output` that the theorems of `Props/C08.lean` are about.

* arithmetic / constants / tables are related *semantically* (thresholds, the two modulo tests, the
  resolved `encoders` dict of every stream class, `flatten` per class, the format table, the
  `close()` handler);
* the methods whose control flow the model mirrors (write_row, cleanup, flush/commit/close of the
  DB stream, the SQL-script wrapper, multiplexing, TableInfo.register, _generate_row) are pinned as
  normalised statement text: any edit changes the generated file and the `rfl` below stops
  type-checking, which sends the change to the correspondence check and to a human.
-/
import SnowModel.Core.Output
import SnowModel.Generated.OutputStreams
import SnowModel.Generated.OutputApi
import SnowModel.Generated.OutputSchema
import SnowModel.Generated.OutputGenerate

namespace SnowModel.Props.C08Bridge
open SnowModel.Output

/-! ### thresholds and the modulo tests -/

theorem count0_eq : Gen.OutputStreams.count0 = 1 := rfl
theorem flush_limit_eq : Gen.OutputStreams.flush_limit = 1000 := rfl
theorem commit_limit_eq : Gen.OutputStreams.commit_limit = 10000 := rfl

/-- both thresholds are positive (no `ZeroDivisionError`; the buffer is bounded) and a commit
    point is always a flush point -/
theorem limits_sane :
    0 < Gen.OutputStreams.flush_limit ∧ 0 < Gen.OutputStreams.commit_limit ∧
    Gen.OutputStreams.commit_limit % Gen.OutputStreams.flush_limit = 0 := by decide

/-- `self.count % self.flush_limit == 0` is the test `Db.writeRow` uses for flushing -/
theorem flushCond_eq (count fl : Nat) :
    Gen.OutputStreams.flushCond count fl = decide (count % fl = 0) := by
  simp only [Gen.OutputStreams.flushCond]
  rw [Int.fmod_eq_emod_of_nonneg _ (by omega)]
  norm_cast

/-- `self.count % self.commit_limit == 0` is the test `Db.writeRow` uses for committing -/
theorem commitCond_eq (count cl : Nat) :
    Gen.OutputStreams.commitCond count cl = decide (count % cl = 0) := by
  simp only [Gen.OutputStreams.commitCond]
  rw [Int.fmod_eq_emod_of_nonneg _ (by omega)]
  norm_cast

/-! ### encoder tables, resolved through the class hierarchy -/

/-- how the source spells a model table -/
def spell (l : List (Ty × Enc)) : List (String × String) := l.map (fun p => (p.1.key, p.2.name))

theorem encoders_base : Gen.OutputStreams.encoders_OutputStream = spell (encodersOf .base) := by decide
theorem encoders_debug : Gen.OutputStreams.encoders_DebugOutputStream = spell (encodersOf .debug) := by decide
theorem encoders_csv : Gen.OutputStreams.encoders_CSVOutputStream = spell (encodersOf .csv) := by decide
theorem encoders_json : Gen.OutputStreams.encoders_JSONOutputStream = spell (encodersOf .json) := by decide
theorem encoders_sqlDb : Gen.OutputStreams.encoders_SqlDbOutputStream = spell (encodersOf .sqlDb) := by decide
theorem encoders_sqlText : Gen.OutputStreams.encoders_SqlTextOutputStream = spell (encodersOf .sqlText) := by decide

/-- the spelling is injective on the key and encoder names, so equal spelt tables are equal tables -/
theorem key_injective (a b : Ty) (h : a.key = b.key) : a = b := by
  cases a <;> cases b <;> first | rfl | exact absurd h (by decide)
theorem name_injective (a b : Enc) (h : a.name = b.name) : a = b := by
  cases a <;> cases b <;> first | rfl | exact absurd h (by decide)

/-- source text of a `flatten` body -/
def Flat.src : Flat → String
  | .id => "return target_object_row.id"
  | .tableParenId => "return f'{target_object_row._tablename}({target_object_row.id})'"

def Cls.pyName : Cls → String
  | .base => "OutputStream" | .debug => "DebugOutputStream" | .csv => "CSVOutputStream"
  | .json => "JSONOutputStream" | .sqlDb => "SqlDbOutputStream" | .sqlText => "SqlTextOutputStream"

theorem flatten_eq :
    Gen.OutputStreams.flatten = Cls.all.map (fun c => (Cls.pyName c, Flat.src (flattenOf c))) := by decide

/-- `OUTPUT_FORMATS` for the data formats -/
def clsOfFormat : List (String × Cls) := [("json", .json), ("txt", .debug), ("csv", .csv), ("sql", .sqlText)]

theorem formats_eq :
    Gen.OutputApi.formats = clsOfFormat.map (fun p => (p.1, Cls.pyName p.2)) := by decide

/-! ### the `close()` handler — relative to the recorded finding D15 -/

/-- The handler around `output_stream.close()` still catches and does not re-raise (two tests of
    Snowfakery's own suite pin that).  It is a pinned *fact*, no longer a finding: `Props.C08.close_reports`
    holds for every value of `swallow` because, since fix 043066e, nothing is left to fail in
    `close()` (`close_never_fails`).  It is the value the residual witness
    `close_reports_script_refuted` (D15b) and the old-model witness instantiate `swallow` with. -/
theorem closeSwallows_eq : Gen.OutputApi.closeSwallows = true := rfl

/-! ### fix 043066e: commit before the run can report success; close every multiplexed stream -/

/-- `generate()` commits the output stream right after `interpreter.execute()`, inside the try, and
    a failure is re-raised as `DataGenError`: the model's `runDb` / `runScript` are the `pre = true`
    instances (`Props.C08.close_reports`, `close_never_fails`).  Reverting the fix flips this pin. -/
theorem commitsBeforeSuccess_eq : Gen.OutputGenerate.commitsBeforeSuccess = true := rfl

theorem interpreterBlock_eq : Gen.OutputGenerate.interpreterBlock =
    ["runtime_context = interpreter.execute()", "try:\n    output_stream.commit()\nexcept Exception as e:\n    raise DataGenError(f'Cannot write to output stream: {e}') from e"] := rfl

/-- no handler around the Interpreter block swallows: the `DataGenError` of the commit fails the run
    (`Outcome.commitFailed`, `reportsSuccess = false`) -/
theorem generate_handlers_reraise :
    Gen.OutputGenerate.generateHandlers = ["DataGenError"] ∧ Gen.OutputGenerate.generateSwallowingHandlers = [] :=
  ⟨rfl, rfl⟩

/-- `MultiplexOutputStream.close` goes on after a failing close and re-raises afterwards:
    `muxClose true` (`Props.C08.mux_close_reaches_all`) and `muxCloseRaises`. -/
theorem muxClose_goesOn_eq :
    Gen.OutputStreams.muxCloseGoesOn = true ∧ Gen.OutputStreams.muxCloseReraises = true := ⟨rfl, rfl⟩

/-! ### statement text of the mirrored methods -/

/-- every stream class runs `OutputStream.write_row` (one write path) -/
theorem writeRowOwner_eq : Gen.OutputStreams.writeRowOwner =
    [("OutputStream", "OutputStream"), ("DebugOutputStream", "OutputStream"), ("CSVOutputStream", "OutputStream"), ("JSONOutputStream", "OutputStream"), ("SqlDbOutputStream", "OutputStream"), ("SqlTextOutputStream", "OutputStream")] := rfl

/-- every field goes through `cleanup` before the sink sees it -/
theorem writeRowCleanup_eq : Gen.OutputStreams.writeRowCleanup =
    ["row_cleaned_up_and_flattened = {field_name: self.cleanup(field_name, field_value, tablename, row_with_references) for field_name, field_value in row_with_references.items()}"] := rfl

/-- `write_row`: sink, flush test, commit test, then `count += 1` — the order `Db.writeRow` mirrors -/
theorem writeRowBody_eq : Gen.OutputStreams.writeRowBody =
    ["self.write_single_row(tablename, row_cleaned_up_and_flattened)", "if self.count % self.flush_limit == 0:\n    self.flush()", "if self.count % self.commit_limit == 0:\n    self.commit()", "self.count += 1"] := rfl

/-- `cleanup`: references → `flatten`; else exact-type lookup, `simplify` fallback, `TypeError` — mirrored by `Output.cleanup` -/
theorem cleanupBody_eq : Gen.OutputStreams.cleanupBody =
    ["if isinstance(field_value, (ObjectRow, ObjectReference)):\n    return self.flatten(sourcetable, field_name, row, field_value)\nelse:\n    encoder = self.encoders.get(type(field_value))\n    if not encoder and hasattr(field_value, 'simplify'):\n        encoder = simplifier_encoder\n    if not encoder:\n        raise TypeError(f'No encoder found for {type(field_value)} in {self.__class__.__name__} for {field_name}, {field_value} in {sourcetable}')\n    return encoder(field_value)"] := rfl

/-- `noop` is the identity (`applyEnc .noop`) -/
theorem noop_body_eq : Gen.OutputStreams.noop_body =
    ["return x"] := rfl

/-- `format_datetime` = `isoformat(timespec="seconds")` (`Val.datetime tsec _ ↦ tsec`) -/
theorem format_datetime_body_eq : Gen.OutputStreams.format_datetime_body =
    ["return dt.isoformat(timespec='seconds')"] := rfl

/-- `_reject_nul` (the SQL script's `str` encoder since e8cf4d3): raises on a NUL character, else the
    identity (`applyEnc .rejectNul`) -/
theorem reject_nul_body_eq : Gen.OutputStreams.reject_nul_body =
    ["if '\\x00' in value:\n    raise ValueError('A SQL script cannot represent a NUL character in a string')", "return value"] := rfl

/-- the `simplify` fallback -/
theorem simplifier_encoder_body_eq : Gen.OutputStreams.simplifier_encoder_body =
    ["return field_value.simplify()"] := rfl

/-- the sinks: `f"{key}={value}"`, `DictWriter.writerow`, `json.dumps`, buffer append, delegation to the inner DB stream -/
theorem writeSingleRow_eq : Gen.OutputStreams.writeSingleRow =
    [("DebugOutputStream", "SimpleFileOutputStream: values = ', '.join([f'{key}={value}' for key, value in row.items()]) ; self.write(f'{tablename}({values})\\n')"), ("CSVOutputStream", "CSVOutputStream: self.writers[tablename].dictwriter.writerow(row)"), ("JSONOutputStream", "JSONOutputStream: if self.first_row:\n    self.write('[')\n    self.first_row = False\nelse:\n    self.write(',\\n') ; values = {'_table': tablename, **row} ; self.write(json.dumps(values))"), ("SqlDbOutputStream", "SqlDbOutputStream: self.buffered_rows[tablename].append(row)"), ("SqlTextOutputStream", "SqlTextOutputStream: self.sql_db.write_single_row(tablename, row)")] := rfl

/-- `flush` = `_flush_rows` inside one `session.begin()` transaction (all-or-nothing: `Db.flush`) -/
theorem db_flush_eq : Gen.OutputStreams.db_flush =
    ["with self.session.begin():\n    self._flush_rows()\n    self.session.flush()"] := rfl

/-- `_flush_rows`: only tables of `table_info`; projection onto `fallback_dict` keys; buffer reset (`Db.flush`, `projectRow`) -/
theorem db_flush_rows_eq : Gen.OutputStreams.db_flush_rows =
    ["for tablename, (insert_statement, fallback_dict) in self.table_info.items():\n    values = [{key: row[key] if key in row else fallback_dict[key] for key in fallback_dict.keys()} for row in self.buffered_rows[tablename]]\n    if values:\n        self.session.execute(insert_statement, values)\n    self.buffered_rows[tablename] = []"] := rfl

/-- `commit` flushes iff `any(self.buffered_rows)` (`Db.commit`) -/
theorem db_commit_eq : Gen.OutputStreams.db_commit =
    ["if any(self.buffered_rows):\n    self.flush()"] := rfl

/-- `close` = commit, then release the session (`runDb`) -/
theorem db_close_eq : Gen.OutputStreams.db_close =
    ["self.commit()", "self.session.close()", "self.engine.dispose()"] := rfl

/-- `table_info`: one entry per inferred table; `fallback_dict` = fields, `id`, `_sf_update_key` iff `has_update_keys` (`dbColumns`) -/
theorem db_create_or_validate_tables_eq : Gen.OutputStreams.db_create_or_validate_tables =
    ["try:\n    create_tables_from_inferred_fields(inferred_tables, self.engine, self.metadata)\nexcept Exception as e:\n    raise DataGenError(f'Cannot write to database: {e}')", "self.metadata.create_all(bind=self.engine)", "self.base.prepare(autoload_with=self.engine, reflect=True)", "TableTuple = namedtuple('TableTuple', ['insert_statement', 'fallback_dict'])", "for tablename, model in self.metadata.tables.items():\n    if tablename in inferred_tables:\n        table_info = TableTuple(insert_statement=model.insert().inline(), fallback_dict={key: None for key in inferred_tables[tablename].fields.keys()})\n        table_info.fallback_dict.setdefault('id', None)\n        if inferred_tables[tablename].has_update_keys:\n            table_info.fallback_dict.setdefault('_sf_update_key', None)\n        self.table_info[tablename] = table_info"] := rfl

/-- `SqlTextOutputStream` overrides neither `write_row`, `cleanup` nor `encoders`; it has its own
    `flush` and (since 043066e) `commit` -/
theorem sqlTextMethods_eq : Gen.OutputStreams.sqlTextMethods =
    ["__init__", "_init_db", "write_single_row", "create_or_validate_tables", "flush", "commit", "_dump_db", "close"] := rfl

/-- its `flush` delegates to the inner DB stream -/
theorem sqlText_flush_eq : Gen.OutputStreams.sqlText_flush =
    ["self.sql_db.flush()"] := rfl

/-- its `commit` delegates to the inner DB stream (since 043066e): the SQL script runs the same
    machine as the database stream, with the same thresholds -/
theorem sqlText_commit_eq : Gen.OutputStreams.sqlText_commit =
    ["SqlTextOutputStream", "self.sql_db.commit()"] := rfl

/-- `_dump_db` commits the inner stream before dumping -/
theorem sqlText_dump_db_eq : Gen.OutputStreams.sqlText_dump_db =
    ["self.sql_db.commit()", "con = self.sql_db.engine.raw_connection()", "for line in con.iterdump():\n    assert self.text_output.stream\n    self.text_output.stream.write('%s\\n' % line)", "con.close()"] := rfl

/-- `close` dumps, closes the inner stream, closes the text output -/
theorem sqlText_close_eq : Gen.OutputStreams.sqlText_close =
    ["self._dump_db()", "self.sql_db.close(*args, **kwargs)", "self.text_output.close(*args, **kwargs)", "self.tempdir.cleanup()"] := rfl

/-- the inner stream is a `SqlDbOutputStream` on a temporary sqlite file -/
theorem sqlText_init_db_eq : Gen.OutputStreams.sqlText_init_db =
    ["db_url = f'sqlite:///{self.tempdir.name}/tempdb.db'", "engine = create_engine(db_url)", "return SqlDbOutputStream(engine)"] := rfl

/-- CSV header = `fields + ["id"]`, plus `_sf_update_key` iff the table has update keys
    (`csvHeader`; repaired by bc0f717 — D16) -/
theorem csv_open_writer_eq : Gen.OutputStreams.csv_open_writer =
    ["file = open(self.target_path / f'{table_name}.csv', 'w', newline='')", "fieldnames = list(table.fields.keys()) + ['id']", "if getattr(table, 'has_update_keys', False):\n    fieldnames.append('_sf_update_key')", "writer = csv.DictWriter(file, fieldnames)", "writer.writeheader()", "return CSVContext(dictwriter=writer, file=file)"] := rfl

/-- **CSV dialect**: the only csv writer of the module is `csv.DictWriter(file, fieldnames)` with *no*
    dialect keyword — the default excel dialect (delimiter `,`, quote `"`, line terminator `\r\n`,
    minimal quoting), under which a field is quoted whenever it holds the delimiter, the quote
    character, `\r` or `\n`; that is the contract behind "csv carries a string verbatim"
    (`Props.C08.cell_str_partial`).  Any dialect parameter (`lineterminator=`, `quoting=`, `delimiter=`,
    `escapechar=`, …) changes this pin. -/
theorem csvWriterCalls_eq : Gen.OutputStreams.csvWriterCalls = [("csv.DictWriter/2", "")] := rfl

/-- …written to a file opened with `newline=""` (no newline translation on top of the dialect) -/
theorem csvOpenArgs_eq : Gen.OutputStreams.csvOpenArgs = [("arg1", "'w'"), ("newline", "''")] := rfl

/-- CSV close: files, then `csvw_metadata.json` -/
theorem csv_close_eq : Gen.OutputStreams.csv_close =
    ["messages = []", "for context in self.writers.values():\n    context.file.close()\n    messages.append(f'Created {context.file.name}')", "table_metadata = [{'url': f'{table_name}.csv'} for table_name, writer in self.writers.items()]", "csv_metadata = {'@context': 'http://www.w3.org/ns/csvw', 'tables': table_metadata}", "csvw_filename = self.target_path / 'csvw_metadata.json'", "with open(csvw_filename, 'w') as f:\n    json.dump(csv_metadata, f, indent=2)", "messages.append(f'Created {csvw_filename}')", "return messages"] := rfl

/-- JSON close writes the closing bracket -/
theorem json_close_eq : Gen.OutputStreams.json_close =
    ["if not self.first_row:\n    self.write(']\\n')", "return super().close()"] := rfl

/-- multiplex: schema to every stream -/
theorem mux_create_or_validate_tables_eq : Gen.OutputStreams.mux_create_or_validate_tables =
    ["for stream in self.outputstreams:\n    stream.create_or_validate_tables(tables)"] := rfl

/-- multiplex: `write_row` to every stream in order (`muxStep`) -/
theorem mux_write_row_eq : Gen.OutputStreams.mux_write_row =
    ["for stream in self.outputstreams:\n    stream.write_row(tablename, row_with_references)"] := rfl

/-- multiplex: `commit` every stream in order (stops at the first exception: the run fails) -/
theorem mux_commit_eq : Gen.OutputStreams.mux_commit =
    ["for stream in self.outputstreams:\n    stream.commit()"] := rfl

/-- multiplex: `close` every stream, remember the first error, re-raise it afterwards (`muxClose true`) -/
theorem mux_close_eq : Gen.OutputStreams.mux_close =
    ["first_error = None", "for stream in self.outputstreams:\n    try:\n        stream.close()\n    except Exception as e:\n        first_error = first_error or e", "if first_error:\n    raise first_error"] := rfl

/-- `except Exception` around `close()` -/
theorem closeHandlers_eq : Gen.OutputApi.closeHandlers =
    ["Exception"] := rfl

/-- the `finally` block of `configure_output_stream` (`reportsSuccess`) -/
theorem finallyBody_eq : Gen.OutputApi.finallyBody =
    ["try:\n    messages = output_stream.close()\nexcept Exception as e:\n    messages = None\n    parent_application.echo(f'Could not close {output_stream}: {str(e)}', err=True)", "if messages:\n    for message in messages:\n        parent_application.echo(message)"] := rfl

/-- 0 streams → debug text on stdout, 1 → itself, several → `MultiplexOutputStream` -/
theorem streamSelection_eq : Gen.OutputApi.streamSelection =
    ["if len(output_streams) == 0:\n    output_stream = DebugOutputStream()\nelif len(output_streams) == 1:\n    output_stream = output_streams[0]\nelse:\n    output_stream = MultiplexOutputStream(output_streams)"] := rfl

/-- the stream is handed to `generate` inside the try -/
theorem yieldBody_eq : Gen.OutputApi.yieldBody =
    ["yield output_stream"] := rfl

/-- `TableInfo.register`: visible field names are merged, `has_update_keys` is sticky (`TableInfo.register`) -/
theorem register_eq : Gen.OutputSchema.register =
    ["self.fields.update({field.name: field for field in template.fields if not field.name.startswith('__')})", "self.friends.update({friend.tablename: friend for friend in template.friends if hasattr(friend, 'tablename')})", "if template.update_key:\n    self.has_update_keys = True", "self._templates.append(template)"] := rfl

/-- a fresh `TableInfo` has no fields and no update keys (`inferTable`) -/
theorem tableInfoInit_eq : Gen.OutputSchema.tableInfoInit =
    ["self.name = name", "self.fields = {}", "self.friends = {}", "self.has_update_keys = False", "self._templates = []"] := rfl

/-- `_generate_row`: `id` first, `_sf_update_key` iff the template has an update key, then the fields; hidden tables are not written (`writtenKeys`) -/
theorem generateRow_eq : Gen.OutputSchema.generateRow =
    ["id = context.generate_id(self.nickname)", "row = {'id': id}", "if self.update_key:\n    row['_sf_update_key'] = self.update_key", "sobj = ObjectRow(self.tablename, row, index)", "context.register_object(sobj, self.nickname, self.just_once)", "self._generate_fields(context, row)", "context.remember_row(self.tablename, self.nickname, row)", "with self.exception_handling('Cannot write row'):\n    if not self.tablename.startswith('__'):\n        output_stream.write_row(self.tablename, context.filter_row_values(row))", "context.interpreter.loop_over_templates_once(self.friends, True)", "return sobj"] := rfl

/-- the installed row filter -/
theorem filterRowValuesBinding_eq : Gen.OutputSchema.filterRowValuesBinding =
    ["self.filter_row_values = self.filter_row_values_normal"] := rfl

/-- hidden (`__`) fields are dropped before `write_row` (`writtenKeys`) -/
theorem filterRowValues_eq : Gen.OutputSchema.filterRowValues =
    ["return {k: v for k, v in row.items() if not k.startswith('__')}"] := rfl

end SnowModel.Props.C08Bridge
