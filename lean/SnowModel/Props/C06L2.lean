/-
C06 at the level of the L2 reference interpreter — a template marked `just_once` produces its rows
exactly once per dataset: in the first iteration of the first run, and never again in later
iterations or continuation runs.

In the interpreter, `execStmts … (.obj t :: rest) continuing s` skips `t` iff
`t.justOnce ∧ continuing`; `iterations` runs its first iteration with the flag it is given and all
later ones with `true`; `chain` runs its first part with `false` and all later parts with `true`.
The theorems say what this amounts to: **after the first iteration of the dataset the run is,
literally, the run of the recipe with its top-level `just_once` templates removed** (`dropOnceR r`),
from the context and the state the first iteration leaves — same rows, same state, same errors.

* `execStmts_continuing_dropOnce`, `iterations_continuing_dropOnce`, `chain_continued_dropOnce`: with
  `continuing = true`, `r` and `dropOnceR r` are indistinguishable (for runs that do not run out of
  fuel: a skipped statement costs the left side one unit of fuel; `Props/L2Fuel.lean` shows that fuel
  is otherwise irrelevant);
* `iterations_first_then_dropOnce`, `chain_first_then_dropOnce`: a dataset = its first iteration, then
  `dropOnceR r`;
* `justOnce_rows_only_first_iteration`: the output of a completed dataset is `out₁ ++ out₂` with `out₁`
  the output of the first iteration and `out₂` produced by `dropOnceR r`;
* `justOnce_table_only_first_iteration`: hence a table that only top-level `just_once` templates
  write to receives all its rows in the first iteration;
* `friends_justOnce_never_run`: friends are always executed with `continuing = true`, so a friend
  marked `just_once` is never executed at all (as in the real code).

Definitions and helper lemmas: `Proofs/L2Once.lean`, `Proofs/L2OnceTables.lean`.
-/
import SnowModel.Core.L2
import SnowModel.Proofs.L2Once
import SnowModel.Proofs.L2OnceTables

namespace SnowModel.Props.C06L2
open SnowModel.L2

/-! ### (a) one pass over the statements -/

/-- what `dropOnce` is: the top-level statements that are not `just_once` templates, in order -/
theorem dropOnce_spec (sts : List Stmt) :
    dropOnce sts = sts.filter (fun st => match st with | .obj t => !t.justOnce | .var _ _ => true) := by
  unfold dropOnce
  congr 1

/-- **A continuing pass skips exactly the `just_once` templates.**  If the pass over `sts` with
    `continuing = true` does not run out of fuel, the pass over `dropOnce sts` has the same result
    (context, state, output, error). -/
theorem execStmts_continuing_dropOnce (fuel : Nat) (c : Ctx) (sts : List Stmt) (s : St)
    (h : execStmts fuel c sts true s ≠ .error .fuel) :
    execStmts fuel c (dropOnce sts) true s = execStmts fuel c sts true s :=
  SnowModel.L2.execStmts_continuing_dropOnce fuel c sts s h

/-- Once the `just_once` templates are removed, the `continuing` flag has no effect at all. -/
theorem dropOnce_flag_irrelevant (fuel : Nat) (r : Recipe) (fs : Bool) :
    (∀ c sts cont s, execStmts fuel c (dropOnce sts) cont s = execStmts fuel c (dropOnce sts) true s) ∧
    (∀ k c cont s, iterations fuel (dropOnceR r) k c cont s = iterations fuel (dropOnceR r) k c true s) ∧
    (∀ parts cont s, chain fuel (dropOnceR r) fs parts cont s = chain fuel (dropOnceR r) fs parts true s) :=
  ⟨execStmts_dropOnce_flag fuel, iterations_dropOnce_flag fuel r, chain_dropOnce_flag fuel r fs⟩

/-! ### (b) runs and chains of runs -/

/-- A run whose first iteration is already a continuing one (every run of a continuation) is the run
    of the recipe without its `just_once` templates. -/
theorem iterations_continuing_dropOnce (fuel : Nat) (r : Recipe) (k : Nat) (c : Ctx) (s : St)
    (h : iterations fuel r k c true s ≠ .error .fuel) :
    iterations fuel (dropOnceR r) k c true s = iterations fuel r k c true s :=
  SnowModel.L2.iterations_continuing_dropOnce fuel r k c s h

/-- Every continued part of a chain — hence the whole rest of the chain — is the same part of the
    recipe without its `just_once` templates. -/
theorem chain_continued_dropOnce (fuel : Nat) (r : Recipe) (fs : Bool) (parts : List Nat) (s : St)
    (h : chain fuel r fs parts true s ≠ .error .fuel) :
    chain fuel (dropOnceR r) fs parts true s = chain fuel r fs parts true s :=
  SnowModel.L2.chain_continued_dropOnce fuel r fs parts s h

/-- **One run.**  `k + 1` iterations are: the first iteration (with the `continuing` flag of the run),
    then `k` iterations of the recipe without its `just_once` templates, from the context and the state
    the first iteration leaves. -/
theorem iterations_first_then_dropOnce (fuel : Nat) (r : Recipe) (k : Nat) (c : Ctx) (cont : Bool) (s : St)
    (h : iterations fuel r (k + 1) c cont s ≠ .error .fuel) :
    iterations fuel r (k + 1) c cont s =
      (match iterations fuel r 1 c cont s with
       | .error e => .error e
       | .ok (c1, s1) => iterations fuel (dropOnceR r) k c1 true s1) := by
  rw [iterations_first] at h ⊢
  generalize iterations fuel r 1 c cont s = x at h ⊢
  cases x with
  | error e => rfl
  | ok p =>
    obtain ⟨c1, s1⟩ := p
    exact (SnowModel.L2.iterations_continuing_dropOnce fuel r k c1 s1 h).symm

/-- **One dataset.**  A chain of runs whose first run makes at least one iteration is: that first
    iteration, then — for the remaining `k` iterations of the first run and for all continuation
    runs — the chain of the recipe without its `just_once` templates (`chainFrom … c1 …`: its first run
    goes on in the top-level context `c1` of the first iteration; later runs start in the empty one). -/
theorem chain_first_then_dropOnce (fuel : Nat) (r : Recipe) (fs : Bool) (k : Nat) (ks : List Nat)
    (cont : Bool) (s : St) (h : chain fuel r fs ((k + 1) :: ks) cont s ≠ .error .fuel) :
    chain fuel r fs ((k + 1) :: ks) cont s =
      (match iterations fuel r 1 { obj := none, vars := [] } cont s with
       | .error e => .error e
       | .ok (c1, s1) => chainFrom fuel (dropOnceR r) fs c1 (k :: ks) true s1) := by
  rw [chain_first] at h ⊢
  generalize iterations fuel r 1 { obj := none, vars := [] } cont s = x at h ⊢
  cases x with
  | error e => rfl
  | ok p =>
    obtain ⟨c1, s1⟩ := p
    exact (chainFrom_continued_dropOnce fuel r fs c1 (k :: ks) s1 h).symm

/-- `chainFrom` started in the empty context is `chain`. -/
theorem chainFrom_empty_ctx (fuel : Nat) (r : Recipe) (fs : Bool) (parts : List Nat) (cont : Bool) (s : St) :
    chainFrom fuel r fs { obj := none, vars := [] } parts cont s = chain fuel r fs parts cont s :=
  chainFrom_empty fuel r fs parts cont s

/-! ### (c) the observable consequence -/

/-- **`just_once` rows are written in the first iteration only.**  In a completed dataset
    (`runChain`, status "ok") whose first run makes at least one iteration, the output is `out₁ ++ out₂`:
    `out₁ = s1.out` is the output of the first iteration of the first run, and `out₂` is what the recipe
    `dropOnceR r` — `r` without its top-level `just_once` templates — produces from the context `c1` and
    the state `s1` after that first iteration.  Nothing after the first iteration comes from a top-level
    `just_once` template. -/
theorem justOnce_rows_only_first_iteration (fuel : Nat) (r : Recipe) (k : Nat) (ks : List Nat) (fs : Bool)
    (h : (runChain fuel r ((k + 1) :: ks) fs).status = "ok") :
    ∃ c1 s1 s2 out₂,
      iterations fuel r 1 { obj := none, vars := [] } false (initSt r) = .ok (c1, s1) ∧
      chainFrom fuel (dropOnceR r) fs c1 (k :: ks) true s1 = .ok s2 ∧
      s2.out = s1.out ++ out₂ ∧
      (runChain fuel r ((k + 1) :: ks) fs).out = s1.out ++ out₂ := by
  obtain ⟨sN, hN⟩ := (runChain_status_ok_iff fuel r _ fs).1 h
  have hne : chain fuel r fs ((k + 1) :: ks) false (initSt r) ≠ .error .fuel := by
    rw [hN]; intro e; cases e
  have hsplit := chain_first_then_dropOnce fuel r fs k ks false (initSt r) hne
  rw [hN] at hsplit
  generalize hx : iterations fuel r 1 { obj := none, vars := [] } false (initSt r) = x at hsplit
  cases x with
  | error e => cases hsplit
  | ok p =>
    obtain ⟨c1, s1⟩ := p
    have h2 : chainFrom fuel (dropOnceR r) fs c1 (k :: ks) true s1 = .ok sN := hsplit.symm
    obtain ⟨⟨ext, hext, -⟩, -⟩ := chainFrom_ext fuel (dropOnceR r) fs c1 (k :: ks) true s1 sN h2
    exact ⟨c1, s1, sN, ext, rfl, h2, hext, by rw [runChain_out_of_ok hN, hext]⟩

/-- Every output row written by a statement list carries the table name of one of the templates in
    it (`stmtsTables`: top-level, nested in fields or counts, friends, at any depth). -/
theorem rows_from_templates (fuel : Nat) (c : Ctx) (sts : List Stmt) (cont : Bool) (s : St) (c' : Ctx)
    (s' : St) (h : execStmts fuel c sts cont s = .ok (c', s')) :
    ∃ ext, s'.out = s.out ++ ext ∧ ∀ row ∈ ext, row.table ∈ stmtsTables sts :=
  (tabAll fuel).2.2.2.2.2 c sts cont s c' s' h

/-- **A table written only by top-level `just_once` templates receives all its rows in the first
    iteration.**  Let `T` be a table name that no template of `dropOnceR r` carries (so in `r` only
    top-level `just_once` templates — and what is nested in them — write to `T`).  In a completed
    dataset whose first run makes at least one iteration, every row after the first iteration has a
    table other than `T`; the `T` rows of the dataset are exactly the `T` rows of the first iteration,
    however many iterations and continuation runs follow. -/
theorem justOnce_table_only_first_iteration (fuel : Nat) (r : Recipe) (k : Nat) (ks : List Nat) (fs : Bool)
    (T : String) (hT : T ∉ stmtsTables (dropOnce r.statements))
    (h : (runChain fuel r ((k + 1) :: ks) fs).status = "ok") :
    ∃ c1 s1 out₂,
      iterations fuel r 1 { obj := none, vars := [] } false (initSt r) = .ok (c1, s1) ∧
      (runChain fuel r ((k + 1) :: ks) fs).out = s1.out ++ out₂ ∧
      (∀ row ∈ out₂, row.table ≠ T) ∧
      (runChain fuel r ((k + 1) :: ks) fs).out.filter (fun row => row.table = T) =
        s1.out.filter (fun row => row.table = T) := by
  obtain ⟨c1, s1, s2, out₂, h1, h2, h3, h4⟩ := justOnce_rows_only_first_iteration fuel r k ks fs h
  obtain ⟨ext, hext, hin⟩ := chainFrom_outIn fuel (dropOnceR r) fs c1 (k :: ks) true s1 s2 h2
  have he : ext = out₂ := List.append_cancel_left (hext.symm.trans h3)
  subst he
  have hne : ∀ row ∈ ext, row.table ≠ T := by
    intro row hr e
    exact hT (e ▸ hin row hr)
  refine ⟨c1, s1, ext, h1, h4, hne, ?_⟩
  rw [h4, List.filter_append]
  have : ext.filter (fun row => row.table = T) = [] := by
    rw [List.filter_eq_nil_iff]
    intro row hr
    simpa using hne row hr
  rw [this, List.append_nil]

/-! ### friends -/

/-- **A friend marked `just_once` is never executed.**  Friends are executed with
    `continuing = true` — also in the first iteration of the first run —, so a template behaves exactly
    like the template without its `just_once` friends (`dropOnceFriends t`), row by row and as a whole. -/
theorem friends_justOnce_never_run (fuel : Nat) (c : Ctx) (t : Template) :
    (dropOnceFriends t).friends = dropOnce t.friends ∧
    (∀ i s, execRow fuel c t i s ≠ .error .fuel →
      execRow fuel c (dropOnceFriends t) i s = execRow fuel c t i s) ∧
    (∀ s, execTemplate fuel c t s ≠ .error .fuel →
      execTemplate fuel c (dropOnceFriends t) s = execTemplate fuel c t s) :=
  ⟨dropOnceFriends_friends t, fun i s h => execRow_dropOnceFriends fuel c t i s h,
   fun s h => execTemplate_dropOnceFriends fuel c t s h⟩

/-! ### (d) non-vacuity -/

/-- a `just_once` template (with a `just_once` friend), referenced by a template that runs in every
    iteration -/
def demo : Recipe :=
  { v3 := false, options := [],
    statements :=
      [.obj (.mk "Once" (some "o") true none [("name", .lit (.str "x"))]
          [.obj (.mk "OnceFriend" none true none [] []), .obj (.mk "Friend" none false none [] [])]),
       .obj (.mk "Each" none false none [("o", .ref ["o"])] [])] }

/-- 3 iterations cut as `[1, 2]`: the `just_once` table appears exactly once (and its `just_once`
    friend never), the other template once per iteration -/
example : (runChain 50 demo [1, 2]).status = "ok" ∧
    (runChain 50 demo [1, 2]).out.map (·.table) = ["Once", "Friend", "Each", "Each", "Each"] ∧
    ((runChain 50 demo [1, 2]).out.filter (·.table = "Once")).length = 1 := by decide +kernel

/-- the same in one run and in three runs -/
example : (runChain 50 demo [3]).out.map (·.table) = ["Once", "Friend", "Each", "Each", "Each"] ∧
    (runChain 50 demo [1, 1, 1]).out.map (·.table) = ["Once", "Friend", "Each", "Each", "Each"] := by
  decide +kernel

/-- the recipe without its `just_once` templates, and the decomposition of the theorem on `demo`:
    the first iteration writes `Once, Friend, Each`; the rest is written by `dropOnceR demo` -/
example : (dropOnceR demo).statements.length = 1 ∧
    (iterations 50 demo 1 { obj := none, vars := [] } false (initSt demo)).toOption.map
        (fun p => p.2.out.map (·.table)) = some ["Once", "Friend", "Each"] ∧
    (match iterations 50 demo 1 { obj := none, vars := [] } false (initSt demo) with
     | .ok (c1, s1) =>
       (chainFrom 50 (dropOnceR demo) true c1 [0, 2] true s1).toOption.map (fun s2 => s2.out.map (·.table))
     | .error _ => none) = some ["Once", "Friend", "Each", "Each", "Each"] := by decide +kernel

/-- `justOnce_table_only_first_iteration` applies to `demo` and the table "Once" (and to "Friend",
    written by a friend of the `just_once` template); it does not apply to "Each" -/
example : "Once" ∉ stmtsTables (dropOnce demo.statements) ∧
    "Friend" ∉ stmtsTables (dropOnce demo.statements) ∧
    "Each" ∈ stmtsTables (dropOnce demo.statements) ∧
    stmtsTables demo.statements = ["Once", "OnceFriend", "Friend", "Each"] := by decide +kernel

example (k : Nat) (ks : List Nat) (h : (runChain 50 demo ((k + 1) :: ks)).status = "ok") :
    ∃ c1 s1, iterations 50 demo 1 { obj := none, vars := [] } false (initSt demo) = .ok (c1, s1) ∧
      (runChain 50 demo ((k + 1) :: ks)).out.filter (fun row => row.table = "Once") =
        s1.out.filter (fun row => row.table = "Once") := by
  obtain ⟨c1, s1, _, h1, _, _, h4⟩ :=
    justOnce_table_only_first_iteration 50 demo k ks true "Once" (by decide +kernel) h
  exact ⟨c1, s1, h1, h4⟩

end SnowModel.Props.C06L2
