import SnowModel.Drv.Util
import SnowModel.Core.Output
open Lean

namespace SnowModel.Drv.C08
open SnowModel.Output SnowModel.Drv

def parseCls (s : String) : Except String Cls :=
  match s with
  | "base" => pure .base | "debug" => pure .debug | "csv" => pure .csv | "json" => pure .json
  | "sqlDb" => pure .sqlDb | "sqlText" => pure .sqlText
  | _ => throw s!"unknown class {s}"

def parseVal (j : Json) : Except String Val := do
  let t ← getStr j "t"
  match t with
  | "str" => pure (.str (← getStr j "v"))
  | "int" => pure (.int (← getInt j "v"))
  | "float" => pure (.float (← getStr j "v"))
  | "bool" => pure (.bool (← getBool j "v"))
  | "none" => pure .none
  | "date" => pure (.date (← getStr j "v"))
  | "datetime" => pure (.datetime (← getStr j "tsec") (← getStr j "sp"))
  | "decimal" => pure (.decimal (← getStr j "v"))
  | "ref" => pure (.ref (← getStr j "table") (← getInt j "id"))
  | "other" =>
    match optField j "simplified" with
    | some s => pure (.other (some (← s.getStr?)))
    | none => pure (.other Option.none)
  | _ => throw s!"unknown value type {t}"

def valToJson : Val → Json
  | .str s => Json.mkObj [("t", "str"), ("v", s)]
  | .int i => Json.mkObj [("t", "int"), ("v", Json.num (JsonNumber.fromInt i))]
  | .float r => Json.mkObj [("t", "float"), ("v", r)]
  | .bool b => Json.mkObj [("t", "bool"), ("v", b)]
  | .none => Json.mkObj [("t", "none")]
  | .date s => Json.mkObj [("t", "date"), ("v", s)]
  | .datetime a b => Json.mkObj [("t", "datetime"), ("tsec", a), ("sp", b)]
  | .decimal s => Json.mkObj [("t", "decimal"), ("v", s)]
  | .ref t i => Json.mkObj [("t", "ref"), ("table", t), ("id", Json.num (JsonNumber.fromInt i))]
  | .other _ => Json.mkObj [("t", "other")]

def cellToJson : Cell → Json
  | .text s => Json.arr #["text", s]
  | .int i => Json.arr #["int", Json.num (JsonNumber.fromInt i)]
  | .bool b => Json.arr #["bool", b]
  | .null => Json.arr #["null"]
  | .float r => Json.arr #["float", r]

def errToJson : EncErr → Json
  | .noEncoder => Json.arr #["error", "noEncoder"]
  | .encoderRaises => Json.arr #["error", "encoderRaises"]
  | .notSerializable => Json.arr #["error", "notSerializable"]
  | .overflow => Json.arr #["error", "overflow"]

def parseTemplate (j : Json) : Except String Template := do
  let fs ← (← getArr j "fields").mapM (fun x => x.getStr?)
  pure { table := ← getStr j "table", fields := fs.toList, updateKey := ← getBool j "updateKey" }

def strs (l : List String) : Json := Json.arr (l.map Json.str).toArray

def dedup (l : List String) : List String := l.foldl addKey []

def handle (m : String) (j : Json) : Except String Json := do
  match m with
  | "c08.cell" =>
    let c ← parseCls (← getStr j "cls")
    let isId ← getBool j "isId"
    let v ← parseVal (← j.getObjVal? "val")
    match encodeCell c isId v with
    | .ok cell => pure (cellToJson cell)
    | .error e => pure (errToJson e)
  | "c08.cleanup" =>
    let c ← parseCls (← getStr j "cls")
    let v ← parseVal (← j.getObjVal? "val")
    match cleanup c v with
    | .ok x => pure (valToJson x)
    | .error e => pure (errToJson e)
  | "c08.db" =>
    let count0 ← getNat j "count0"
    let fl ← getNat j "fl"
    let cl ← getNat j "cl"
    let known ← (← getArr j "known").mapM (fun x => x.getStr?)
    let ws ← (← getArr j "ws").mapM (fun (x : Json) => do
      let a ← x.getArr?
      match a.toList with
      | [t, b] => pure ((← t.getStr?), (← b.getBool?))
      | _ => throw "bad write")
    -- a row is (its index in the write sequence, whether sqlite can bind it)
    let rows : List (String × (Nat × Bool)) := ws.toList.zipIdx.map (fun (p : (String × Bool) × Nat) => (p.1.1, (p.2, p.1.2)))
    let pre := match optField j "pre" with
      | some (Json.bool b) => b
      | _ => true
    let out := runDb pre count0 fl cl (fun (r : Nat × Bool) => r.2) known.toList rows
    let tables := dedup (known.toList ++ rows.map (fun r => r.1))
    let dump (s : Db (Nat × Bool)) : List (String × Json) :=
      [("count", Json.num (JsonNumber.fromNat s.count)),
       ("committed", Json.mkObj (tables.map (fun t => (t, natsToJson ((s.committed t).map (fun r => r.1)))))),
       ("buffered", Json.mkObj (tables.map (fun t => (t, natsToJson ((s.buffered t).map (fun r => r.1)))))),
       ("log", Json.arr (s.log.map (fun (e : Nat × String × Nat) =>
          Json.arr #[Json.num (JsonNumber.fromNat e.1), Json.str e.2.1, Json.num (JsonNumber.fromNat e.2.2)])).toArray)]
    match out with
    | .writeFailed => pure (Json.mkObj [("outcome", "writeFailed")])
    | .commitFailed => pure (Json.mkObj [("outcome", "commitFailed")])
    | .closed s => pure (Json.mkObj (("outcome", "closed") :: dump s))
    | .closeFailed s => pure (Json.mkObj (("outcome", "closeFailed") :: dump s))
  | "c08.schema" =>
    let tpls ← (← getArr j "templates").mapM parseTemplate
    let tl := tpls.toList
    let tables := dedup (tl.map (fun t => t.table))
    pure (Json.mkObj [
      ("tables", Json.mkObj (tables.map (fun t =>
        let ti := inferTable tl t
        (t, Json.mkObj [("fields", strs ti.fields), ("hasUpdateKeys", ti.hasUpdateKeys),
                        ("dbColumns", strs (dbColumns ti)), ("csvHeader", strs (csvHeader ti))])))),
      ("writtenKeys", Json.arr (tl.map (fun t => strs (writtenKeys t))).toArray)])
  | "c08.muxclose" =>
    let oks ← (← getArr j "oks").mapM (fun x => x.getBool?)
    let goOn := match optField j "goOn" with
      | some (Json.bool b) => b
      | _ => true
    pure (Json.mkObj [
      ("closed", Json.arr ((muxClose goOn id oks.toList).map (fun (o : Option Bool) =>
        match o with | some b => Json.bool b | Option.none => Json.null)).toArray),
      ("raises", Json.bool (muxCloseRaises id oks.toList))])
  | _ => throw s!"unknown method {m}"

end SnowModel.Drv.C08
