import SnowModel.Drv.Util
import SnowModel.Core.ParseY
open Lean

/-! JSON glue for C14: `c14.parse` (multi-file recipe → expanded statements, options, version),
    `c14.dedupe`, `c14.merge` (option merge with the two tests as parameters). -/
namespace SnowModel.Drv.C14
open SnowModel.ParseY SnowModel.Drv

def optStrField (j : Json) (k : String) : Except String String :=
  match optField j k with
  | some v => v.getStr?
  | none => pure ""

mutual
  partial def parseDef (j : Json) : Except String RDef := do
    match optField j "nested" with
    | some t => pure (.nested (← parseTemplate t))
    | none => pure (.val (← getStr j "val"))

  partial def parseFieldList (j : Json) (k : String) : Except String (List (String × RDef)) :=
    match optField j k with
    | some v => do
      let a ← (← v.getArr?).mapM (fun p => do
        match (← p.getArr?).toList with
        | [n, d] => pure ((← n.getStr?), (← parseDef d))
        | _ => throw "bad field")
      pure a.toList
    | none => pure []

  partial def parseStmtList (j : Json) (k : String) : Except String (List RStmt) :=
    match optField j k with
    | some v => do pure (← (← v.getArr?).mapM parseStmt).toList
    | none => pure []

  partial def parseTemplate (j : Json) : Except String RTemplate := do
    pure (.mk (← getStr j "table") (← optStrField j "attrs") (incNames (← optStrField j "include"))
      (← parseFieldList j "fields") (← parseStmtList j "friends"))

  partial def parseStmt (j : Json) : Except String RStmt := do
    match optField j "var" with
    | some n => pure (.var (← n.getStr?) (← parseDef (← j.getObjVal? "value")))
    | none => pure (.obj (← parseTemplate (← j.getObjVal? "obj")))
end

def parseOVal (j : Json) : Except String OVal :=
  match j with
  | Json.null => pure .none_
  | Json.num _ => do pure (.int (← j.getInt?))
  | _ =>
    match optField j "b", optField j "s", optField j "other" with
    | some b, _, _ => do pure (.bool (← b.getBool?))
    | _, some s, _ => do pure (.str (← s.getStr?))
    | _, _, some t => do pure (.other (← t.getBool?) (← optStrField j "repr"))
    | _, _, _ => throw "bad option value"

def ovalJ : OVal → Json
  | .none_ => Json.null
  | .bool b => Json.mkObj [("b", Json.bool b)]
  | .int i => Json.num (JsonNumber.fromInt i)
  | .str s => Json.mkObj [("s", Json.str s)]
  | .other t r => Json.mkObj [("other", Json.bool t), ("repr", Json.str r)]

def parseOptDecl (j : Json) : Except String OptDecl := do
  let name ← getStr j "name"
  let has ← getBool j "has_default"
  if has then pure ⟨name, some (← parseOVal (← j.getObjVal? "default"))⟩ else pure ⟨name, none⟩

def optDeclJ (o : OptDecl) : Json :=
  Json.mkObj [("name", Json.str o.name), ("has_default", Json.bool o.dflt.isSome),
    ("default", match o.dflt with | some v => ovalJ v | none => Json.null)]

def parseItem (j : Json) : Except String Item := do
  match ← getStr j "k" with
  | "include" => pure (.includeFile (← getStr j "name"))
  | "macro" =>
    pure (.macro (← getStr j "name")
      ⟨incNames (← optStrField j "include"), ← parseFieldList j "fields", ← parseStmtList j "friends"⟩)
  | "option" => pure (.option (← parseOptDecl j))
  | "version" => pure (.version (← getInt j "v"))
  | "stmt" => pure (.stmt (← parseStmt (← j.getObjVal? "s")))
  | k => throw s!"bad item kind {k}"

def parseFiles (j : Json) : Except String (AList (List Item)) := do
  let a ← (← j.getArr?).mapM (fun p => do
    match (← p.getArr?).toList with
    | [n, items] => pure ((← n.getStr?), (← (← items.getArr?).mapM parseItem).toList)
    | _ => throw "bad file")
  pure a.toList

mutual
  partial def pdefJ : PDef → Json
    | .val p => Json.mkObj [("val", Json.str p)]
    | .nested t => Json.mkObj [("nested", ptemplateJ t)]
  partial def ptemplateJ (t : PTemplate) : Json :=
    Json.mkObj [("table", Json.str t.table), ("attrs", Json.str t.attrs),
      ("fields", Json.arr (t.fields.map (fun p => Json.arr #[Json.str p.1, pdefJ p.2])).toArray),
      ("friends", Json.arr (t.friends.map pstmtJ).toArray)]
  partial def pstmtJ : PStmt → Json
    | .var n d => Json.mkObj [("var", Json.str n), ("value", pdefJ d)]
    | .obj t => Json.mkObj [("obj", ptemplateJ t)]
end

def errJ : Err → Json
  | .fuel => Json.arr #[Json.str "fuel"]
  | .noMacro n => Json.arr #[Json.str "noMacro", Json.str n]
  | .macroCycle ps n => Json.arr #[Json.str "macroCycle", Json.arr (ps.map Json.str).toArray, Json.str n]
  | .macroNested n => Json.arr #[Json.str "macroNested", Json.str n]
  | .noFile n => Json.arr #[Json.str "noFile", Json.str n]
  | .includeCycle n => Json.arr #[Json.str "includeCycle", Json.str n]
  | .versionConflict => Json.arr #[Json.str "versionConflict"]
  | .badVersion => Json.arr #[Json.str "badVersion"]
  | .noOption n => Json.arr #[Json.str "noOption", Json.str n]

def parseTest (s : String) : Except String Test :=
  match s with
  | "truthy-get" => pure .truthyGet
  | "in" => pure .contains
  | _ => throw s!"bad test kind {s}"

def parsePairs (j : Json) : Except String (AList OVal) := do
  let a ← (← j.getArr?).mapM (fun p => do
    match (← p.getArr?).toList with
    | [k, v] => pure ((← k.getStr?), (← parseOVal v))
    | _ => throw "bad pair")
  pure a.toList

def handle (m : String) (j : Json) : Except String Json := do
  match m with
  | "c14.parse" =>
    let files ← parseFiles (← j.getObjVal? "files")
    let main ← getStr j "main"
    let fuel ← getNat j "fuel"
    pure (match parseRecipe fuel files main with
      | .ok p => Json.mkObj [("status", Json.str "ok"),
          ("statements", Json.arr (p.statements.map pstmtJ).toArray),
          ("options", Json.arr (p.options.map optDeclJ).toArray),
          ("version", match p.version with | some v => Json.num (JsonNumber.fromInt v) | none => Json.null)]
      | .error .fuel => Json.mkObj [("status", Json.str "fuel")]
      | .error e => Json.mkObj [("status", Json.str "recipe_error"), ("err", errJ e)])
  | "c14.dedupe" =>
    let a ← (← getArr j "fields").mapM (fun p => do
      match (← p.getArr?).toList with
      | [k, v] => pure ((← k.getStr?), (← v.getStr?))
      | _ => throw "bad pair")
    pure (Json.arr ((dedupe a.toList).map (fun p => Json.arr #[Json.str p.1, Json.str p.2])).toArray)
  | "c14.incnames" =>
    pure (Json.arr ((incNames (← getStr j "s")).map Json.str).toArray)
  | "c14.resolve" =>
    -- {"order": [layer tags, farthest first], "binds": {tag: [names]}, "name": n} → tag | null
    let tagOf : String → Except String Layer := fun t => match t with
      | "builtins" => pure .builtin | "options" => pure .option | "object_names" => pure .objectName
      | "row_fields" => pure .rowField | "plugins" => pure .plugin | "variables" => pure .variable
      | "funcs" => pure .func | x => throw s!"bad layer {x}"
    let tagJ : Layer → String := fun L => match L with
      | .builtin => "builtins" | .option => "options" | .objectName => "object_names"
      | .rowField => "row_fields" | .plugin => "plugins" | .variable => "variables" | .func => "funcs"
    let order ← (← getArr j "order").mapM (fun x => do tagOf (← x.getStr?))
    let bj ← j.getObjVal? "binds"
    let name ← getStr j "name"
    let binds : Layer → List String := fun L =>
      match bj.getObjVal? (tagJ L) with
      | .ok (Json.arr a) => a.toList.filterMap (fun x => match x with | Json.str s => some s | _ => none)
      | _ => []
    pure (match resolveIn order.toList binds name with
      | some L => Json.str (tagJ L)
      | none => Json.null)
  | "c14.merge" =>
    let tu ← parseTest (← getStr j "tu")
    let td ← parseTest (← getStr j "td")
    let defs ← (← getArr j "defs").mapM parseOptDecl
    let user ← parsePairs (← j.getObjVal? "user")
    let plugin ← parsePairs (← j.getObjVal? "plugin")
    pure (match mergeOptions tu td defs.toList user plugin with
      | .ok (opts, extra) => Json.mkObj [
          ("options", Json.arr (opts.map (fun p => Json.arr #[Json.str p.1, ovalJ p.2])).toArray),
          ("extra", Json.arr (extra.map Json.str).toArray)]
      | .error e => Json.mkObj [("error", errJ e)])
  | _ => throw s!"unknown method {m}"

end SnowModel.Drv.C14
