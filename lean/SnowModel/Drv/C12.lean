import SnowModel.Drv.Util
import SnowModel.Core.RandRange
open Lean

namespace SnowModel.Drv.C12
open SnowModel.RandRange SnowModel.Drv

def outToJson : Out → Json
  | .value v => Json.arr #[Json.str "value", Json.num (JsonNumber.fromInt v)]
  | .stop => Json.arr #[Json.str "stop"]
  | .ok => Json.arr #[Json.str "ok"]
  | .assertion => Json.arr #[Json.str "assertion"]

def parseOp (j : Json) : Except String Op := do
  let a ← j.getArr?
  match a.toList with
  | [Json.str "next"] => pure Op.next
  | [Json.str "set", x, y] => pure (Op.setRange (← x.getInt?) (← y.getInt?))
  | _ => throw "bad op"

def parseDraws (j : Json) : Except String (Array (Nat × Nat)) := do
  let a ← j.getArr?
  a.mapM (fun p => do
    let q ← p.getArr?
    match q.toList with
    | [x, y] => pure ((← x.getNat?), (← y.getNat?))
    | _ => throw "bad draw pair")

def handle (m : String) (j : Json) : Except String Json := do
  match m with
  | "c12.random_range" =>
    let start ← getInt j "start"
    let stop ← getInt j "stop"
    let d1 ← getNat j "d1"
    let d2 ← getNat j "d2"
    pure (intsToJson (randomRange start stop d1 d2))
  | "c12.urr" =>
    let a ← getInt j "a"
    let b ← getInt j "b"
    let draws ← parseDraws (← j.getObjVal? "draws")
    let ops ← (← getArr j "ops").mapM parseOp
    let mk : Mk := fun n x y =>
      match draws[n]? with
      | some (d1, d2) => randomRange x y d1 d2
      | none => []
    match create mk a b with
    | none => pure (Json.mkObj [("create", Json.str "assertion")])
    | some s =>
      let (s', outs) := run mk s ops.toList
      pure (Json.mkObj [("create", Json.str "ok"), ("outs", Json.arr (outs.map outToJson).toArray),
                        ("made", Json.num (JsonNumber.fromNat s'.made))])
  | _ => throw s!"unknown method {m}"

end SnowModel.Drv.C12
