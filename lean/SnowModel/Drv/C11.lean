import SnowModel.Drv.Util
import SnowModel.Core.Bounded
open Lean

namespace SnowModel.Drv.C11
open SnowModel.Bounded SnowModel.Drv

def jInt (i : Int) : Json := Json.num (JsonNumber.fromInt i)
def jNat (i : Nat) : Json := Json.num (JsonNumber.fromNat i)
def tag (s : String) (xs : List Json := []) : Json := Json.arr (Json.str s :: xs).toArray

def rrToJson : RROut → Json
  | .value x => tag "value" [jInt x]
  | .emptyRange => tag "empty_range"
  | .zeroStep => tag "zero_step"
  | .badDraw => tag "bad_draw"

def choiceToJson : ChoiceOut → Json
  | .picked i => tag "picked" [jNat i]
  | .typeError => tag "type_error"
  | .totalNotPositive => tag "total_not_positive"
  | .noChoices => tag "no_choices"
  | .badDraw => tag "bad_draw"

def dateToJson : DateOut → Json
  | .value d => tag "value" [jInt d]
  | .null => tag "null"
  | .badDraw => tag "bad_draw"

def dtToJson : DTOut → Json
  | .value d => tag "value" [jInt d]
  | .orderError => tag "order_error"
  | .badDraw => tag "bad_draw"

def parseRaw (j : Json) : Except String RawW := do
  match j with
  | Json.null => pure RawW.none
  | _ =>
    let a ← j.getArr?
    match a.toList with
    | [Json.str "int", n] => pure (RawW.int (← n.getNat?))
    | [Json.str "pct", n] => pure (RawW.pct (← n.getNat?))
    | [Json.str "str", n] => pure (RawW.str (← n.getNat?))
    | _ => throw "bad raw weight"

def parseDateSpec (j : Json) : Except String DateSpec := do
  let a ← j.getArr?
  match a.toList with
  | [Json.str "abs", d] => pure (DateSpec.abs (← d.getInt?))
  | [Json.str "today"] => pure DateSpec.today
  | [Json.str "rel", y, mo, w, d, h, mi, s] =>
    pure (DateSpec.rel { years := ← y.getInt?, months := ← mo.getInt?, weeks := ← w.getInt?,
                         days := ← d.getInt?, hours := ← h.getInt?, minutes := ← mi.getInt?,
                         seconds := ← s.getInt? })
  | _ => throw "bad date spec"

def parseDTSpec (j : Json) : Except String DTSpec := do
  let a ← j.getArr?
  match a.toList with
  | [Json.str "stamp", w, Json.null] => pure (DTSpec.stamp (← w.getInt?) none)
  | [Json.str "stamp", w, off] => pure (DTSpec.stamp (← w.getInt?) (some (← off.getInt?)))
  | [Json.str "date", d] => pure (DTSpec.date (← d.getInt?))
  | [Json.str "today"] => pure DTSpec.today
  | [Json.str "now"] => pure DTSpec.now
  | _ => throw "bad datetime spec"

def handle (m : String) (j : Json) : Except String Json := do
  match m with
  | "c11.random_number" =>
    let mn ← getInt j "min"
    let mx ← getInt j "max"
    let st ← getInt j "step"
    let k ← getNat j "k"
    let mode := match optField j "mode" with
      | some (Json.str "formula_v2") => ArgMode.formulaV2
      | _ => ArgMode.native
    -- "raw": the three Python objects as they arrive (ints or strings); overrides min/max/step
    let pyArg (x : Json) : Except String PyArg := match x with
      | Json.str t => pure (PyArg.str t)
      | v => do pure (PyArg.int (← v.getInt?))
    let res ← match optField j "raw" with
      | some r => do
        let a ← r.getArr?
        match a.toList with
        | [x, y, z] => pure (randomNumberObj codeArgConv (← pyArg x) (← pyArg y) (← pyArg z) k)
        | _ => throw "raw: three arguments expected"
      | none => pure (randomNumberVia mode mn mx st k)
    match res with
    | .typeError => pure (Json.mkObj [("n", jInt (rnCount mn mx st)), ("out", tag "type_error")])
    | .valueError => pure (Json.mkObj [("n", jInt (rnCount mn mx st)), ("out", tag "value_error")])
    | .out o =>
      -- what the output stream receives when the result is re-rendered in the v2 dialect
      let rendered : Json := match o with
        | .value x => (match renderV2 x with
            | .ok (.int i) => tag "int" [jInt i]
            | .ok (.str t) => tag "str" [Json.str t]
            | _ => tag "other")
        | _ => Json.null
      pure (Json.mkObj [("n", jInt (rnCount mn mx st)), ("out", rrToJson o), ("rendered_v2", rendered)])
  | "c11.choice_list" =>
    pure (choiceToJson (randomChoiceList (← getNat j "n") (← getNat j "k")))
  | "c11.choice_items" =>
    let raws ← (← getArr j "weights").mapM parseRaw
    pure (choiceToJson (randomChoiceItems raws.toList (← getNat j "x")))
  | "c11.choice_kw" =>
    let raws ← (← getArr j "weights").mapM parseRaw
    pure (choiceToJson (randomChoiceKw raws.toList (← getNat j "x")))
  | "c11.resolve_date" =>
    pure (jInt (resolveDate (← getInt j "today") (← parseDateSpec (← j.getObjVal? "spec"))))
  | "c11.date_between" =>
    let today ← getInt j "today"
    let s ← parseDateSpec (← j.getObjVal? "start")
    let e ← parseDateSpec (← j.getObjVal? "end")
    pure (Json.mkObj [("lo", jInt (resolveDate today s)), ("hi", jInt (resolveDate today e)),
                      ("out", dateToJson (dateBetween today s e (← getNat j "k")))])
  | "c11.datetime_between" =>
    let c : Clock := { today := ← getInt j "today", nowUs := ← getInt j "now_us" }
    let s ← parseDTSpec (← j.getObjVal? "start")
    let e ← parseDTSpec (← j.getObjVal? "end")
    pure (Json.mkObj [("s", jInt (normalise codeTzCall c s)), ("e", jInt (normalise codeTzCall c e)),
                      ("ws", jInt (writtenInstant c s)), ("we", jInt (writtenInstant c e)),
                      ("out", dtToJson (datetimeBetween c s e (← getNat j "d")))])
  | _ => throw s!"unknown method {m}"

end SnowModel.Drv.C11
