import SnowModel.Drv.Util
import SnowModel.Core.Mapping
open Lean

namespace SnowModel.Drv.C16
open SnowModel.Mapping SnowModel.Drv

def strs (j : Json) : Except String (List String) := do
  let a ← j.getArr?
  (a.mapM (fun (x : Json) => x.getStr?)).map Array.toList

def optStr (j : Json) : Except String (Option String) :=
  match j with
  | Json.null => pure none
  | v => do pure (some (← v.getStr?))

def parseDep (j : Json) : Except String Dep := do
  match (← j.getArr?).toList with
  | [a, b, c] => pure ⟨← a.getStr?, ← b.getStr?, ← c.getStr?⟩
  | _ => throw "bad dependency"

def parseTable (j : Json) : Except String TableInfo := do
  let name ← getStr j "name"
  let fields ← strs (← j.getObjVal? "fields")
  let ts ← (← getArr j "templates").mapM optStr
  pure ⟨name, fields, ts.toList⟩

def parseDecl (j : Json) : Except String Decl := do
  match (← j.getArr?).toList with
  | [a, b] => pure (← a.getStr?, ← strs b)
  | _ => throw "bad declaration"

def jstrs (l : List String) : Json := Json.arr (l.map Json.str).toArray
def jopt : Option String → Json
  | none => Json.null
  | some s => Json.str s

def errToJson : Err → Json
  | .outOfFuel => Json.arr #[Json.str "outOfFuel"]
  | .valueError t => Json.arr #[Json.str "ValueError", Json.str t]
  | .multipleRecordTypes t => Json.arr #[Json.str "DataGenError", Json.str t]

def lookupToJson (l : Lookup) : Json :=
  Json.mkObj [("field", Json.str l.field), ("table", Json.str l.table), ("after", jopt l.after)]

def mappingToJson (p : String × Mapping) : Json :=
  Json.mkObj [
    ("name", Json.str p.1),
    ("sf_object", Json.str p.2.sfObject),
    ("table", Json.str p.2.table),
    ("fields", Json.arr (p.2.fields.map (fun kv => Json.arr #[Json.str kv.1, Json.str kv.2])).toArray),
    ("lookups", Json.arr (p.2.lookups.map lookupToJson).toArray),
    ("update_key", jopt p.2.upsertKey),
    ("filters", jstrs p.2.filters)]

def handle (m : String) (j : Json) : Except String Json := do
  match m with
  | "c16.mapping" =>
    let tables ← (← getArr j "tables").mapM parseTable
    let deps ← (← getArr j "deps").mapM parseDep
    let decls ← (← getArr j "decls").mapM parseDecl
    let order := tableOrder tables.toList deps.toList decls.toList
    let res := mappingFromRecipe tables.toList deps.toList decls.toList
    pure (Json.mkObj [
      ("order", match order with | none => Json.null | some o => jstrs o),
      ("result", match res with
        | .ok ms => Json.mkObj [("ok", Json.arr (ms.map mappingToJson).toArray)]
        | .error e => Json.mkObj [("error", errToJson e)])])
  | "c16.sort" =>
    -- `sort_dependencies` called directly: explicit inferred / declared dependency lists
    let inferred ← (← getArr j "inferred").mapM parseDep
    let declared ← (← getArr j "declared").mapM parseDep
    let tables ← strs (← j.getObjVal? "tables")
    let truthy ← getBool j "inferred_truthy"
    pure (match sortDependencies truthy inferred.toList declared.toList tables with
      | none => Json.null
      | some o => jstrs o)
  | "c16.continued_deps" =>
    let saved ← (← getArr j "saved").mapM parseDep
    let observed ← (← getArr j "observed").mapM parseDep
    let acc ← getStr j "access"
    let a ← match acc with
      | "index" => pure Access.index
      | "get" => pure Access.get
      | "getattr" => pure Access.getattr
      | _ => throw "bad access kind"
    let ds := continuedDeps a saved.toList observed.toList
    pure (Json.arr (ds.map (fun d => jstrs [d.frm, d.to, d.field])).toArray)
  | _ => throw s!"unknown method {m}"

end SnowModel.Drv.C16
