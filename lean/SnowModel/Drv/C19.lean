import SnowModel.Drv.Util
import SnowModel.Core.Proc
open Lean

namespace SnowModel.Drv.C19
open SnowModel.Proc SnowModel.Drv

def intJ (i : Int) : Json := Json.num (JsonNumber.fromInt i)
def natJ (n : Nat) : Json := Json.num (JsonNumber.fromNat n)

def keyToJson : Key → Json
  | .str s => Json.arr #[Json.str "str", Json.str s]
  | .aware i o => Json.arr #[Json.str "aware", intJ i, intJ o]
  | .naive w => Json.arr #[Json.str "naive", intJ w]
  | .date d => Json.arr #[Json.str "date", intJ d]
  | .int n => Json.arr #[Json.str "int", intJ n]
  | .pair a b => Json.arr #[Json.str "pair", intJ a, intJ b]
  | .obj t => Json.arr #[Json.str "obj", natJ t]

def parseKey (j : Json) : Except String Key := do
  let a ← j.getArr?
  let tag ← (a[0]?.getD Json.null).getStr?
  let geti (i : Nat) : Except String Int := (a[i]?.getD Json.null).getInt?
  match tag with
  | "str" => pure (.str (← (a[1]?.getD Json.null).getStr?))
  | "aware" => pure (.aware (← geti 1) (← geti 2))
  | "naive" => pure (.naive (← geti 1))
  | "date" => pure (.date (← geti 1))
  | "int" => pure (.int (← geti 1))
  | "pair" => pure (.pair (← geti 1) (← geti 2))
  | "obj" => pure (.obj (← (a[1]?.getD Json.null).getNat?))
  | t => throw s!"unknown key tag {t}"

def parseCache (s : String) : Except String CacheId :=
  match s with
  | "parse_date" => pure .parseDate
  | "parse_datetimespec" => pure .parseDatetimespec
  | "randomizer" => pure .randomizer
  | "mask_for_key" => pure .maskForKey
  | "import_module" => pure .importModule
  | t => throw s!"unknown cache {t}"

def allCaches : List (String × CacheId) :=
  [("parse_date", .parseDate), ("parse_datetimespec", .parseDatetimespec), ("randomizer", .randomizer),
   ("mask_for_key", .maskForKey), ("import_module", .importModule)]

def parseOp (j : Json) : Except String Op := do
  let a ← j.getArr?
  let tag ← (a[0]?.getD Json.null).getStr?
  match tag with
  | "gen" => pure .newGenerator
  | "lookup" =>
    let c ← parseCache (← (a[1]?.getD Json.null).getStr?)
    let k ← parseKey (a[2]?.getD Json.null)
    let v ← parseKey (a[3]?.getD Json.null)
    pure (.lookup c k v)
  | "draw" => pure (.draw (← (a[1]?.getD Json.null).getInt?))
  | "clock" => pure (.clock (← (a[1]?.getD Json.null).getInt?))
  | "setHistory" => pure (.setHistory (← (a[1]?.getD Json.null).getNat?))
  | "getHistory" => pure .getHistory
  | "enter" => pure (.enterDir (← (a[1]?.getD Json.null).getStr?))
  | "leave" => pure .leaveDir
  | t => throw s!"unknown op {t}"

def obsToJson (hit : Bool) : Obs → Json
  | .unit => Json.arr #[Json.str "unit"]
  | .nat n => Json.arr #[Json.str "nat", natJ n]
  | .val v => Json.arr #[Json.str "val", keyToJson v, Json.bool hit]
  | .int i => Json.arr #[Json.str "int", intJ i]
  | .hist none => Json.arr #[Json.str "hist", Json.null]
  | .hist (some h) => Json.arr #[Json.str "hist", natJ h]
  | .err => Json.arr #[Json.str "err"]

def totalHits (p : Proc) : Nat := (allCaches.map (fun c => (p.caches c.2).hits)).foldl (· + ·) 0

/-- replay one run's operations; per operation: the observation (+ whether a lookup was a hit) and,
    for lookups of structured keys, what the source computes for that key (`specF`) -/
def replayOps : St → List Op → St × List Json
  | st, [] => (st, [])
  | st, o :: os =>
    let r := step st o
    let hit := decide (totalHits r.1.proc > totalHits st.proc)
    let spec : Json := match o with
      | .lookup c k _ => (match specF c k with | some v => keyToJson v | none => Json.null)
      | _ => Json.null
    let rest := replayOps r.1 os
    (rest.1, Json.mkObj [("obs", obsToJson hit r.2), ("spec", spec)] :: rest.2)

def digest (st : St) : Json :=
  Json.mkObj
    ([("ctx", natJ st.proc.ctx),
      ("history", match st.proc.history with | none => Json.null | some h => natJ h),
      ("cwd", Json.str st.proc.cwd),
      ("rng", natJ st.proc.rng),
      ("dirs", natJ st.dirs.length)]
     ++ allCaches.map (fun c =>
          (c.1, Json.mkObj [("hits", natJ (st.proc.caches c.2).hits), ("misses", natJ (st.proc.caches c.2).misses),
                            ("currsize", natJ (st.proc.caches c.2).entries.length)])))

def replayRuns : St → List (List Op) → List Json
  | _, [] => []
  | st, ops :: rest =>
    let r := replayOps { st with dirs := [] } ops
    Json.mkObj [("ops", Json.arr r.2.toArray), ("after", digest r.1)] :: replayRuns r.1 rest

def handle (m : String) (j : Json) : Except String Json := do
  match m with
  | "c19.replay" =>
    let ctx0 ← getNat j "ctx0"
    let cwd0 ← getStr j "cwd0"
    let runsJ ← getArr j "runs"
    let runs ← runsJ.toList.mapM (fun r => do
      let a ← r.getArr?
      a.toList.mapM parseOp)
    let st0 : St := { proc := { ctx := ctx0, cwd := cwd0 }, dirs := [] }
    pure (Json.arr (replayRuns st0 runs).toArray)
  | "c19.spec" =>
    let c ← parseCache (← getStr j "cache")
    let k ← parseKey (← j.getObjVal? "key")
    pure (match specF c k with | some v => keyToJson v | none => Json.null)
  | "c19.datetime" =>
    -- what `Functions.datetime` makes of the object the cache returned; "tz": minutes or null (`timezone: False`)
    let tz : Option Int := match optField j "tz" with
      | some t => (t.getInt?).toOption
      | none => none
    let v ← parseKey (← j.getObjVal? "v")
    pure (keyToJson (datetimeFn tz v))
  | "c19.dialects" =>
    -- one plugin_options dict passed to a list of generate() calls: the dialect of every call
    let copies ← getBool j "copies"
    let dj ← getArr j "dict"
    let d ← dj.toList.mapM (fun e => do
      let a ← e.getArr?
      let k ← (a[0]?.getD Json.null).getStr?
      let v ← (a[1]?.getD Json.null).getInt?
      pure (k, v))
    let vj ← getArr j "versions"
    let vs : List (Option Int) := vj.toList.map (fun x => (x.getInt?).toOption)
    pure (Json.arr ((dialects copies d vs).map intJ).toArray)
  | "c19.options" =>
    -- one user_options dict passed to a list of generate() calls; "calls": per recipe the declared options
    -- [[name, default|null]…]; answer: per call the resolved options [[name, value]…] or null (no definition supplied)
    let wb ← getBool j "writesBack"
    let parseDict (x : Json) : Except String Dict := do
      let a ← x.getArr?
      a.toList.mapM (fun e => do
        let p ← e.getArr?
        let k ← (p[0]?.getD Json.null).getStr?
        let v ← (p[1]?.getD Json.null).getInt?
        pure (k, v))
    let user ← parseDict (← j.getObjVal? "user")
    let cj ← getArr j "calls"
    let calls ← cj.toList.mapM (fun c => do
      let a ← c.getArr?
      a.toList.mapM (fun e => do
        let p ← e.getArr?
        let k ← (p[0]?.getD Json.null).getStr?
        pure (k, ((p[1]?.getD Json.null).getInt?).toOption)))
    let outs := runShared (calls.map (generateOptions wb)) user
    pure (Json.arr (outs.map (fun o => match o with
      | none => Json.null
      | some d => Json.arr (d.map (fun e => Json.arr #[Json.str e.1, intJ e.2])).toArray)).toArray)
  | "c19.pyeq" =>
    let a ← parseKey (← j.getObjVal? "a")
    let b ← parseKey (← j.getObjVal? "b")
    pure (Json.bool (a.pyEq b))
  | _ => throw s!"unknown method {m}"

end SnowModel.Drv.C19
