import SnowModel.Drv.Util
import SnowModel.Core.IdMachine
open Lean

namespace SnowModel.Drv.L1
open SnowModel.IdMachine SnowModel.Drv

def rowJ (r : Row) : Json := Json.arr #[Json.str r.table, Json.num (JsonNumber.fromNat r.id)]

def obsJ : Obs → Json
  | .id n => Json.arr #[Json.str "id", Json.num (JsonNumber.fromNat n)]
  | .row r => Json.arr #[Json.str "row", rowJ r]
  | .slot r => Json.arr #[Json.str "slot", rowJ r]
  | .notFound => Json.arr #[Json.str "notfound"]
  | .ok => Json.arr #[Json.str "ok"]

def slotJ : SlotSt → Json
  | .unused => Json.arr #[Json.str "u"]
  | .alloc i => Json.arr #[Json.str "a", Json.num (JsonNumber.fromNat i)]
  | .consumed i => Json.arr #[Json.str "c", Json.num (JsonNumber.fromNat i)]

def optRowJ : Option Row → Json
  | none => Json.null
  | some r => rowJ r

/-- state digest over a universe of names -/
def digest (s : St) (univ : List String) : Json :=
  Json.mkObj [
    ("lu", Json.mkObj (univ.map (fun n => (n, Json.num (JsonNumber.fromNat (s.lastUsed n)))))),
    ("slots", Json.mkObj (s.names.map (fun p => (p.1, slotJ (s.slot p.1))))),
    ("pn", Json.mkObj ((univ.filter (fun n => (s.pNick n).isSome)).map (fun n => (n, optRowJ (s.pNick n))))),
    ("pt", Json.mkObj ((univ.filter (fun n => (s.pTable n).isSome)).map (fun n => (n, optRowJ (s.pTable n))))),
    ("no", Json.mkObj ((univ.filter (fun n => (s.nickObjs n).isSome)).map (fun n => (n, optRowJ (s.nickObjs n))))),
    ("ls", Json.mkObj ((univ.filter (fun n => (s.lastSeen n).isSome)).map (fun n => (n, optRowJ (s.lastSeen n)))))]

def parseOp (j : Json) : Except String Op := do
  let a ← j.getArr?
  match a.toList with
  | [Json.str "create", t, n, jo] =>
    let nick ← (match n with | Json.null => pure none | v => do pure (some (← v.getStr?)))
    pure (Op.create (← t.getStr?) nick (← jo.getBool?))
  | [Json.str "lookup", n] => pure (Op.lookup (← n.getStr?))
  | [Json.str "end"] => pure Op.endIteration
  | [Json.str "saveload"] => pure Op.saveLoad
  | _ => throw "bad op"

def runTrace (s : St) (univ : List String) : List Op → List Json
  | [] => []
  | op :: ops =>
    match step s op with
    | .error (.unfulfilled l) => [Json.mkObj [("err", Json.arr (l.map Json.str).toArray)]]
    | .ok (s1, o) => Json.mkObj [("obs", obsJ o), ("st", digest s1 univ)] :: runTrace s1 univ ops

def parsePair (p : Json) : Except String (String × String) := do
  let q ← p.getArr?
  match q.toList with
  | [a, b] => pure ((← a.getStr?), (← b.getStr?))
  | _ => throw "bad name pair"

def handle (m : String) (j : Json) : Except String Json := do
  match m with
  | "l1.run" =>
    let names ← (← getArr j "names").mapM parsePair
    let univ ← (← getArr j "univ").mapM (fun (v : Json) => v.getStr?)
    let ops ← (← getArr j "ops").mapM parseOp
    pure (Json.arr (runTrace (init names.toList) univ.toList ops.toList).toArray)
  | _ => throw s!"unknown method {m}"

end SnowModel.Drv.L1
