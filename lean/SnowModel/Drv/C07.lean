import SnowModel.Drv.Util
import SnowModel.Core.Stop
import SnowModel.Core.StopTables
open Lean

namespace SnowModel.Drv.C07
open SnowModel.Stop SnowModel.Drv

def num (n : Nat) : Json := Json.num (JsonNumber.fromNat n)

/-- `starting_id`: `None` ↦ `null` -/
def optNum : Option Nat → Json
  | none => Json.null
  | some n => num n

def outcomeToJson : Outcome → Json
  | .rejected => Json.arr #[Json.str "rejected"]
  | .finished n last app => Json.arr #[Json.str "finished", num n, num last, optNum app.startingId, num app.repCount]
  | .noProgress n last => Json.arr #[Json.str "noProgress", num n, num last]
  | .outOfFuel n => Json.arr #[Json.str "outOfFuel", num n]

def getCont (j : Json) : Except String Cont :=
  match optField j "cont" with
  | none => pure none
  | some v => do pure (some (← v.getNat?))

def getCrit (j : Json) : Except String Crit := do
  match optField j "tname" with
  | none => pure defaultCrit           -- no stopping criteria given: SnowfakeryApplication(None)
  | some t => pure ⟨← t.getStr?, ← getNat j "count"⟩

open SnowModel.StopTables in
partial def parseTmpl (j : Json) : Except String Tmpl := do
  let t ← getStr j "t"
  let incs ← (← getArr j "inc").mapM (fun x => x.getStr?)
  let kids ← (← getArr j "kids").mapM parseTmpl
  pure (.mk t incs.toList kids.toList)

open SnowModel.StopTables in
def parseMacro (j : Json) : Except String StopTables.Macro := do
  let n ← getStr j "name"
  let incs ← (← getArr j "inc").mapM (fun x => x.getStr?)
  let kids ← (← getArr j "kids").mapM parseTmpl
  pure ⟨n, incs.toList, kids.toList⟩

def handle (m : String) (j : Json) : Except String Json := do
  match m with
  | "c07.tables" =>
    let ms ← (← getArr j "macros").mapM parseMacro
    let sts ← (← getArr j "statements").mapM parseTmpl
    let fuel ← getNat j "fuel"
    match SnowModel.StopTables.parseTables fuel ⟨ms.toList, sts.toList⟩ with
    | .ok l => pure (Json.arr #[Json.str "ok", Json.arr (l.map Json.str).toArray])
    | .error .macroNotFound => pure (Json.arr #[Json.str "error", Json.str "macroNotFound"])
    | .error .macroCycle => pure (Json.arr #[Json.str "error", Json.str "macroCycle"])
    | .error .fuel => pure (Json.arr #[Json.str "error", Json.str "fuel"])
  | "c07.run" =>
    let tables ← (← getArr j "tables").mapM (fun t => t.getStr?)
    let c ← getCrit j
    let cont ← getCont j
    let rl ← (← getArr j "r").mapM (fun t => t.getNat?)
    let rdef ← getNat j "rdef"
    let r := seqOf rl.toList rdef
    match optField j "fuel" with
    | none => pure (outcomeToJson (run tables.toList c cont r))
    | some f => pure (outcomeToJson (runFuel tables.toList c cont r (← f.getNat?)))
  | "c07.boundary" =>
    let c ← getCrit j
    let cont ← getCont j
    let sid ← match optField j "sid" with
      | none => pure none
      | some v => do pure (some (← v.getNat?))
    let app : App := ⟨sid, ← getNat j "rc"⟩
    let last ← getNat j "last"
    match boundary c (startId cont) app last with
    | none => pure (Json.arr #[Json.str "error"])
    | some (app', fin) =>
      pure (Json.arr #[Json.str (if fin then "fin" else "cont"), optNum app'.startingId, num app'.repCount])
  | _ => throw s!"unknown method {m}"

end SnowModel.Drv.C07
