import SnowModel.Drv.Util
import SnowModel.Core.DsIter
open Lean

namespace SnowModel.Drv.C17
open SnowModel.DsIter SnowModel.Drv

/-- records are represented by their index in the file: `0 .. n-1` -/
def outToJson : Out Nat → Json
  | .value v => Json.arr #[Json.str "value", Json.num (JsonNumber.fromNat v)]
  | .stop => Json.arr #[Json.str "stop"]

def parseNatLists (j : Json) : Except String (Array (List Nat)) := do
  let a ← j.getArr?
  a.mapM (fun p => do
    let q ← p.getArr?
    let l ← q.mapM (fun x => x.getNat?)
    pure l.toList)

/-- source selected by `"mode"`: `linear`; `shuffle` (Fisher–Yates with `"draws"`: one draw list per
    pass); `oracle` (`"orders"`: the recorded order of each pass, e.g. what `ORDER BY random()` returned) -/
def getSrc (j : Json) (key : String := "draws") : Except String (Src Nat) := do
  let mode ← getStr j "mode"
  let n ← getNat j "n"
  let recs := List.range n
  match mode with
  | "linear" => pure (linearSrc recs)
  | "shuffle" =>
    let ds ← parseNatLists (← j.getObjVal? key)
    pure (shuffledSrc recs (fun i => (ds[i]?).getD []))
  | "oracle" =>
    let os ← parseNatLists (← j.getObjVal? "orders")
    pure (fun i => (os[i]?).getD [])
  | _ => throw s!"unknown mode {mode}"

def rowsToJson (rows : List (Nat × Nat)) : Json :=
  Json.arr (rows.map (fun (p : Nat × Nat) => natsToJson [p.1, p.2])).toArray

def handle (m : String) (j : Json) : Except String Json := do
  match m with
  | "c17.iter" =>
    let src ← getSrc j
    let rep ← getBool j "repeat"
    let cnt ← getNat j "count"
    let r := runN src (create src rep) cnt
    pure (Json.mkObj [("outs", Json.arr (r.1.map outToJson).toArray),
                      ("passes", Json.num (JsonNumber.fromNat r.2.passes))])
  | "c17.consume" =>
    let src ← getSrc j
    let rep ← getBool j "repeat"
    let cnt ← getNat j "count"
    let r := consume src (create src rep) cnt
    pure (Json.mkObj [("rows", natsToJson r.1), ("error", Json.bool r.2.1),
                      ("passes", Json.num (JsonNumber.fromNat r.2.2.passes))])
  | "c17.consume_fresh" =>
    -- a site inside a for_each template: row k reads a new iterator; "draws"/"orders" per row
    let mode ← getStr j "mode"
    let n ← getNat j "n"
    let rep ← getBool j "repeat"
    let cnt ← getNat j "count"
    let recs := List.range n
    let per ← match mode with
      | "linear" => pure (#[] : Array (List Nat))
      | "shuffle" => parseNatLists (← j.getObjVal? "draws")
      | _ => parseNatLists (← j.getObjVal? "orders")
    let srcs : Nat → Src Nat := fun i =>
      match mode with
      | "linear" => linearSrc recs
      | "shuffle" => fun _ => shuffle ((per[i]?).getD []) recs
      | _ => fun _ => (per[i]?).getD []
    let r := consumeFresh srcs rep cnt 0
    pure (Json.mkObj [("rows", natsToJson r.1), ("error", Json.bool r.2)])
  | "c17.for_each" =>
    -- "draws"/"orders": one entry per execution (only pass 0 of each new iterator is ever read)
    let mode ← getStr j "mode"
    let n ← getNat j "n"
    let rep ← getBool j "repeat"
    let e ← getNat j "execs"
    let recs := List.range n
    let per ← match mode with
      | "linear" => pure (#[] : Array (List Nat))
      | "shuffle" => parseNatLists (← j.getObjVal? "draws")
      | _ => parseNatLists (← j.getObjVal? "orders")
    let srcs : Nat → Src Nat := fun i =>
      match mode with
      | "linear" => linearSrc recs
      | "shuffle" => fun _ => shuffle ((per[i]?).getD []) recs
      | _ => fun _ => (per[i]?).getD []
    match forEachExecs srcs rep (n + 2) e with
    | some rows => pure (Json.mkObj [("rows", Json.arr (rows.map rowsToJson).toArray)])
    | none => pure (Json.mkObj [("rows", Json.null)])
  | "c17.for_each_keeping_repeat" =>
    let src ← getSrc j
    let rep ← getBool j "repeat"
    let fuel ← getNat j "fuel"
    match forEachExecKeepingRepeat src rep fuel with
    | some rows => pure (Json.mkObj [("rows", rowsToJson rows)])
    | none => pure (Json.mkObj [("rows", Json.null)])
  | "c17.update" =>
    let n ← getNat j "n"
    let iters ← getNat j "iters"
    match updateRun (List.range n) (n + 2) iters with
    | some rows => pure (Json.mkObj [("rows", Json.arr (rows.map rowsToJson).toArray)])
    | none => pure (Json.mkObj [("rows", Json.null)])
  | "c17.interleave" =>
    -- two consumers of the same file under a schedule: "a"/"b" = {mode, draws|orders, repeat},
    -- "ops" = [[who(bool), "next"] | [who, "renew", rep]]
    let n ← getNat j "n"
    let ja ← j.getObjVal? "a"
    let jb ← j.getObjVal? "b"
    let withN (x : Json) : Json := x.setObjVal! "n" (Json.num (JsonNumber.fromNat n))
    let srcA ← getSrc (withN ja)
    let srcB ← getSrc (withN jb)
    let repA ← getBool ja "repeat"
    let repB ← getBool jb "repeat"
    let ops ← (← getArr j "ops").mapM (fun o => do
      let a ← o.getArr?
      match a.toList with
      | [w, Json.str "next"] => pure ((← w.getBool?), Op.next)
      | [w, Json.str "renew", r] => pure ((← w.getBool?), Op.renew (← r.getBool?))
      | _ => throw "bad op")
    let r := runTwo srcA srcB (create srcA repA, create srcB repB) ops.toList
    let enc (l : List (Option (Out Nat))) : Json :=
      Json.arr (l.filterMap (fun o => o.map outToJson)).toArray
    pure (Json.mkObj [("a", enc (projOuts true r.1)), ("b", enc (projOuts false r.1))])
  | "c17.shuffle" =>
    let n ← getNat j "n"
    let ds ← (← getArr j "draws").mapM (fun x => x.getNat?)
    pure (natsToJson (shuffle ds.toList (List.range n)))
  | _ => throw s!"unknown method {m}"

end SnowModel.Drv.C17
