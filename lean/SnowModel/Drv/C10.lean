import SnowModel.Drv.Util
import SnowModel.Drv.C12
import SnowModel.Core.History
open Lean

namespace SnowModel.Drv.C10
open SnowModel.History SnowModel.Drv

def natJ (n : Nat) : Json := Json.num (JsonNumber.fromNat n)

def errJ : Err → String
  | .noRows => "noRows"
  | .notFound => "notFound"
  | .badScope => "badScope"
  | .integrity => "integrity"
  | .noTable => "noTable"

def parseScope (s : String) : Scope :=
  if s = "current-iteration" then .current
  else if s = "prior-and-current-iterations" then .prior
  else .other

def optStr (j : Json) : Except String (Option String) :=
  match j with
  | Json.null => pure none
  | v => do pure (some (← v.getStr?))

/-- ops of the trace; `range` = a pick whose randomizer raised (only the range is observable) -/
inductive TOp where
  | op (o : Op)
  | range (name : String) (scope : Scope)

def parseOp (j : Json) : Except String TOp := do
  let a ← j.getArr?
  match a.toList with
  | [Json.str "save", t, n, i] =>
    pure (.op (Op.save (← t.getStr?) (← optStr n) (← i.getNat?)))
  | [Json.str "resave", rows] =>
    let rs ← (← rows.getArr?).mapM (fun (r : Json) => do
      match (← r.getArr?).toList with
      | [t, n, i] => pure ((← t.getStr?), (← optStr n), (← i.getNat?))
      | _ => throw "bad resave row")
    pure (.op (Op.resave rs.toList))
  | [Json.str "pick", n, sc, d] => pure (.op (Op.pick (← n.getStr?) (parseScope (← sc.getStr?)) (← d.getNat?)))
  | [Json.str "range", n, sc] => pure (.range (← n.getStr?) (parseScope (← sc.getStr?)))
  | [Json.str "reset"] => pure (.op Op.reset)
  | _ => throw "bad op"

def digest (s : St) (univ : List String) : Json :=
  Json.mkObj [
    ("tc", Json.mkObj (univ.map (fun n => (n, natJ (s.tableCtr n))))),
    ("nc", Json.mkObj (univ.map (fun n => (n, natJ (s.nickCtr n))))),
    ("lc", Json.mkObj (univ.map (fun n => (n, natJ (s.localCtr n))))),
    ("ln", Json.mkObj (univ.map (fun n => (n, natJ (s.localNick n))))),
    ("nrows", natJ s.rows.length)]

def rangeJ (pr : PickRange) : List Json :=
  [match pr.nick with | some n => Json.str n | none => Json.null, Json.str pr.table, natJ pr.lo, natJ pr.hi]

def runTrace (s : St) (univ : List String) : List TOp → List Json
  | [] => []
  | .range name scope :: ops =>
    match pickRange s name scope with
    | .error e => [Json.mkObj [("err", Json.str (errJ e))]]
    | .ok pr => Json.mkObj [("obs", Json.arr (Json.str "range" :: rangeJ pr).toArray), ("st", digest s univ)]
                  :: runTrace s univ ops
  | .op o :: ops =>
    match step s o with
    | .error e => [Json.mkObj [("err", Json.str (errJ e))]]
    | .ok (s1, ob) =>
      let obsJ : Json :=
        match ob, o with
        | .picked t i, .pick name scope _ =>
          let rg := match pickRange s name scope with | .ok pr => rangeJ pr | .error _ => []
          Json.arr ([Json.str "picked", Json.str t, natJ i] ++ rg).toArray
        | .picked t i, _ => Json.arr #[Json.str "picked", Json.str t, natJ i]
        | .ok, _ => Json.arr #[Json.str "ok"]
      Json.mkObj [("obs", obsJ), ("st", digest s1 univ)] :: runTrace s1 univ ops

def parsePairS (p : Json) : Except String (String × String) := do
  match (← p.getArr?).toList with
  | [a, b] => pure ((← a.getStr?), (← b.getStr?))
  | _ => throw "bad pair"

def parsePairN (p : Json) : Except String (String × Nat) := do
  match (← p.getArr?).toList with
  | [a, b] => pure ((← a.getStr?), (← b.getNat?))
  | _ => throw "bad pair"

def parseReq (p : Json) : Except String (Int × Int) := do
  match (← p.getArr?).toList with
  | [a, b] => pure ((← a.getInt?), (← b.getInt?))
  | _ => throw "bad request"

def parseParent (p : Json) : Except String (Option (String × Nat)) :=
  match p with
  | Json.null => pure none
  | v => do pure (some (← parsePairN v))

def handle (m : String) (j : Json) : Except String Json := do
  match m with
  | "c10.history" =>
    let counters ← (← getArr j "counters").mapM parsePairN
    let tables ← (← getArr j "tables").mapM (fun (v : Json) => v.getStr?)
    let nickmap ← (← getArr j "nickmap").mapM parsePairS
    let univ ← (← getArr j "univ").mapM (fun (v : Json) => v.getStr?)
    let ops ← (← getArr j "ops").mapM parseOp
    let s0 := init counters.toList tables.toList nickmap.toList
    pure (Json.mkObj [("st0", digest s0 univ.toList),
                      ("trace", Json.arr (runTrace s0 univ.toList ops.toList).toArray)])
  | "c10.unique" =>
    let reqs ← (← getArr j "reqs").mapM parseReq
    let draws ← C12.parseDraws (← j.getObjVal? "draws")
    let mk : RandRange.Mk := fun n x y =>
      match draws[n]? with
      | some (d1, d2) => RandRange.randomRange x y d1 d2
      | none => []
    let r := uniqueRun mk none reqs.toList
    pure (Json.arr (r.2.map C12.outToJson).toArray)
  | "c10.ctx" =>
    let ps ← (← getArr j "parents").mapM parseParent
    pure (Json.arr ((ctxRun (none : Option (Option (String × Nat) × Unit)) ps.toList).map Json.bool).toArray)
  | "c10.resave_rows" =>
    let pn ← (← getArr j "pn").mapM (fun (r : Json) => do
      match (← r.getArr?).toList with
      | [n, t, i] => pure ((← n.getStr?), (← t.getStr?), (← i.getNat?))
      | _ => throw "bad pn entry")
    let pt ← (← getArr j "pt").mapM parsePairN
    let hist ← (← getArr j "hist").mapM (fun (v : Json) => v.getStr?)
    let rows := resaveRows pn.toList pt.toList hist.toList
    pure (Json.arr (rows.map (fun x => Json.arr #[Json.str x.1,
      (match x.2.1 with | some n => Json.str n | none => Json.null), natJ x.2.2])).toArray)
  | "c10.hist_tables" =>
    let names ← (← getArr j "names").mapM parsePairS
    let refs ← (← getArr j "refs").mapM (fun (v : Json) => v.getStr?)
    pure (Json.arr ((historyTables names.toList refs.toList).map Json.str).toArray)
  | _ => throw s!"unknown method {m}"

end SnowModel.Drv.C10
