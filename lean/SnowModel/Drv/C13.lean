import SnowModel.Drv.Util
import SnowModel.Core.Uid
open Lean

/-! JSON glue for the C13 model (`SnowModel.Uid`).  Untrusted plumbing: the oracles `lg` and
`mask` are finite tables supplied by the harness (computed with the Python standard library,
independently of Snowfakery); a lookup that misses is reported back as a "need" and the harness
resubmits the request with the completed tables. -/
namespace SnowModel.Drv.C13
open SnowModel.Uid SnowModel.Drv

def natJ (n : Nat) : Json := Json.num (JsonNumber.fromNat n)

def errStr : Err → String
  | .unknownPart s => s!"unknown_part:{s}"
  | .assertMinbits => "assert_minbits"
  | .assertNumbits => "assert_numbits"
  | .alphabetTooShort => "alphabet_too_short"
  | .signInAlphabet => "sign_in_alphabet"

def partJ : Part → Json
  | .pid => Json.str "pid"
  | .lit n => natJ n
  | .index => Json.str "index"
  | .context => Json.str "context"

abbrev LgTable := List (Nat × Nat)
abbrev MaskTable := List (Nat × Nat × Nat)

def parseLg (j : Json) : Except String LgTable := do
  match optField j "lg" with
  | none => pure []
  | some t =>
    let a ← t.getArr?
    a.toList.mapM (fun p => do
      match (← p.getArr?).toList with
      | [x, y] => pure ((← x.getNat?), (← y.getNat?))
      | _ => throw "bad lg entry")

def parseMasks (j : Json) : Except String MaskTable := do
  match optField j "masks" with
  | none => pure []
  | some t =>
    let a ← t.getArr?
    a.toList.mapM (fun p => do
      match (← p.getArr?).toList with
      | [k, nb, m] => pure ((← k.getNat?), (← nb.getNat?), (← m.getNat?))
      | _ => throw "bad mask entry")

def lgOf (t : LgTable) (n : Nat) : Option Nat := (t.find? (fun p => p.1 == n)).map (·.2)
def maskOf (t : MaskTable) (k nb : Nat) : Option Nat :=
  (t.find? (fun p => p.1 == k && p.2.1 == nb)).map (·.2.2)

def lgF (t : LgTable) : Nat → Nat := fun n => (lgOf t n).getD 0
def maskF (t : MaskTable) : Nat → Nat → Nat := fun k nb => (maskOf t k nb).getD 0

structure Needs where
  lg : List Nat := []
  mask : List (Nat × Nat) := []

/-- which oracle values does `scramble number minbits` look up that the tables lack? -/
def needsOfScramble (lt : LgTable) (mt : MaskTable) (number minbits : Nat) (acc : Needs) : Needs :=
  if minbits < 10 then acc else
  let n := number / SHIFT1
  if n ≠ 0 ∧ (lgOf lt n).isNone then { acc with lg := n :: acc.lg }
  else
    let nb := numbitsOf (lgF lt) number minbits
    let key := number % SHIFT1
    if nb < SHIFT2 ∧ (maskOf mt key nb).isNone then { acc with mask := (key, nb) :: acc.mask } else acc

def needsJ (n : Needs) : List (String × Json) :=
  [("need_lg", Json.arr (n.lg.reverse.map natJ).toArray),
   ("need_mask", Json.arr (n.mask.reverse.map (fun p => Json.arr #[natJ p.1, natJ p.2])).toArray)]

def exceptNatJ : Except Err Nat → Json
  | .ok v => Json.mkObj [("value", natJ v)]
  | .error e => Json.mkObj [("error", Json.str (errStr e))]

def getNatList (j : Json) (k : String) : Except String (List Nat) := do
  (← getArr j k).toList.mapM (fun x => x.getNat?)

def valJ : Val → Json
  | .num n => natJ n
  | .code s => Json.str (String.ofList s)

def outJ : Out → Json
  | .created g => Json.arr #[Json.str "created", natJ g]
  | .value g i v => Json.arr #[Json.str "value", natJ g, natJ i, valJ v]
  | .failed e => Json.arr #[Json.str "failed", Json.str (errStr e)]
  | .noSuchGen => Json.arr #[Json.str "nosuchgen"]

/-- harness-side op: generator handles count *all* creation attempts (also failed ones) -/
inductive HOp where
  | num (template : String) (pid : List Nat) (randomize : Bool)
  | alpha (template : String) (pid : List Nat) (alphabet : String) (minChars : Nat) (randomize : Bool)
  | draw (handle : Nat)
  | restore (template : String) (pid : List Nat) (randomize : Bool) (start : Nat)

def parseHOp (j : Json) : Except String HOp := do
  let a ← j.getArr?
  match a.toList with
  | [Json.str "num", t, pid, r] =>
    pure (.num (← t.getStr?) (← (← pid.getArr?).toList.mapM (·.getNat?)) (← r.getBool?))
  | [Json.str "alpha", t, pid, al, mc, r] =>
    let als := match al with
      | Json.str s => s
      | _ => ""
    pure (.alpha (← t.getStr?) (← (← pid.getArr?).toList.mapM (·.getNat?)) als (← mc.getNat?) (← r.getBool?))
  | [Json.str "draw", h] => pure (.draw (← h.getNat?))
  | [Json.str "restore", t, pid, r, st] =>
    pure (.restore (← t.getStr?) (← (← pid.getArr?).toList.mapM (·.getNat?)) (← r.getBool?) (← st.getNat?))
  | _ => throw "bad op"

def needsOfDraw (lt : LgTable) (mt : MaskTable) (g : Gen) (acc : Needs) : Needs :=
  let raw := rawId g.cfg g.counter
  match g.kind with
  | .numeric true => needsOfScramble lt mt raw 10 acc
  | .numeric false => acc
  | .alpha al mc true =>
    needsOfScramble lt mt raw (minBits { num := g.cfg, alphabet := al, minChars := mc, randomize := true }) acc
  | .alpha _ _ false => acc

/-- run harness ops on the model process; returns outs, needs, final state -/
def runH (lt : LgTable) (mt : MaskTable) :
    Proc → List (Option Nat) → List HOp → List Json → Needs → Proc × List Json × Needs
  | p, _, [], outs, nd => (p, outs.reverse, nd)
  | p, hs, op :: ops, outs, nd =>
    let create (mop : Except Err Op) : Proc × List Json × Needs :=
      match mop with
      | .error e =>
        let (p1, _) := step (lgF lt) (maskF mt) p Op.burn
        runH lt mt p1 (hs ++ [none]) ops (outJ (.failed e) :: outs) nd
      | .ok o =>
        let (p1, out) := step (lgF lt) (maskF mt) p o
        match out with
        | .created g => runH lt mt p1 (hs ++ [some g]) ops (outJ out :: outs) nd
        | _ => runH lt mt p1 (hs ++ [none]) ops (outJ out :: outs) nd
    match op with
    | .num t pid r => create ((parseTemplate t).map (fun ps => Op.newNumeric ps pid r))
    | .restore t pid r st =>
      create ((parseTemplate t).map (fun ps => Op.restore { parts := ps, randomize := r, start := st } pid))
    | .alpha t pid al mc r => create ((parseTemplate t).map (fun ps => Op.newAlpha ps pid al.toList mc r))
    | .draw h =>
      match hs[h]? with
      | some (some g) =>
        let nd1 := match p.gens[g]? with
          | some gen => needsOfDraw lt mt gen nd
          | none => nd
        let (p1, out) := step (lgF lt) (maskF mt) p (Op.draw g)
        runH lt mt p1 hs ops (outJ out :: outs) nd1
      | _ => runH lt mt p hs ops (outJ .noSuchGen :: outs) nd

/-- final state of a generator: context number, `start`, counter, and what `__reduce__` persists -/
def genJ (g : Gen) : Json :=
  let saved := match reduceGen g with
    | some sv => Json.mkObj [("parts", Json.arr (sv.parts.map partJ).toArray), ("randomize", Json.bool sv.randomize),
                             ("start", natJ sv.start)]
    | none => Json.null
  Json.mkObj [("ctx", natJ g.cfg.ctx), ("start", natJ g.start), ("counter", natJ g.counter), ("saved", saved)]

def handle (m : String) (j : Json) : Except String Json := do
  match m with
  | "c13.parse" =>
    let t ← getStr j "template"
    match parseTemplate t with
    | .ok ps => pure (Json.mkObj [("parts", Json.arr (ps.map partJ).toArray)])
    | .error e => pure (Json.mkObj [("error", Json.str (errStr e))])
  | "c13.encode_tuple" =>
    let ps ← getNatList j "ps"
    pure (natJ (encodeTuple ps))
  | "c13.scramble" =>
    let number ← getNat j "number"
    let minbits ← getNat j "minbits"
    let lt ← parseLg j
    let mt ← parseMasks j
    let nd := needsOfScramble lt mt number minbits {}
    let r := scramble (lgF lt) (maskF mt) number minbits
    let un := match r with
      | .ok v => [("unscrambled", natJ (unscramble (maskF mt) v)), ("assert_qty", natJ (unscrambleAssertQty v))]
      | .error _ => []
    pure (Json.mkObj ([("result", exceptNatJ r)] ++ un ++ needsJ nd))
  | "c13.unscramble" =>
    let v ← getNat j "v"
    let mt ← parseMasks j
    let nb := v % SHIFT2
    let key := ((v - nb) % SHIFT3) / SHIFT2
    let nd : Needs := if (maskOf mt key nb).isNone then { mask := [(key, nb)] } else {}
    pure (Json.mkObj ([("value", natJ (unscramble (maskF mt) v))] ++ needsJ nd))
  | "c13.alpha_code" =>
    let al ← getStr j "alphabet"
    let mc ← getNat j "min_chars"
    let n ← getNat j "n"
    let code := alphaCode al.toList mc n
    pure (Json.mkObj [("code", Json.str (String.ofList code)), ("decoded", natJ (alphaDecode al.toList code))])
  | "c13.defaults" =>
    pure (Json.mkObj [
      ("numeric_small", Json.str (defaultNumericTemplate false)), ("numeric_big", Json.str (defaultNumericTemplate true)),
      ("alpha_small", Json.str (defaultAlphaTemplate false)), ("alpha_big", Json.str (defaultAlphaTemplate true)),
      ("alphabet", Json.str (String.ofList defaultAlphabet)), ("min_chars", natJ defaultMinChars)])
  | "c13.proc" =>
    let first ← getNat j "first_ctx"
    let ops ← (← getArr j "ops").toList.mapM parseHOp
    let lt ← parseLg j
    let mt ← parseMasks j
    let (p, outs, nd) := runH lt mt (Proc.init first) [] ops [] {}
    pure (Json.mkObj ([("outs", Json.arr outs.toArray), ("next_ctx", natJ p.nextCtx),
                       ("gens", Json.arr (p.gens.map genJ).toArray)] ++ needsJ nd))
  | _ => throw s!"unknown method {m}"

end SnowModel.Drv.C13
