import SnowModel.Drv.Util
import SnowModel.Core.Persist
open Lean

namespace SnowModel.Drv.C05
open SnowModel.Persist SnowModel.Drv

def parseSc (j : Json) : Except String Sc := do
  match j with
  | Json.null => pure .null
  | _ =>
    let t ← getStr j "t"
    match t with
    | "str" => pure (.str (← getStr j "v"))
    | "int" =>
      match (← getStr j "v").toInt? with
      | some i => pure (.int i)
      | none => throw "bad int"
    | "float" => pure (.float (← getStr j "v"))
    | "bool" => pure (.bool (← getBool j "v"))
    | "date" => pure (.date (← getStr j "v"))
    | "datetime" => pure (.datetime (← getStr j "v"))
    | "decimal" => pure (.decimal (← getStr j "v"))
    | _ => throw s!"not a scalar: {t}"

def parseVal (j : Json) : Except String Val := do
  match j with
  | Json.null => pure (.sc .null)
  | _ =>
    let t ← getStr j "t"
    match t with
    | "ref" => pure (.row (← getStr j "table") (← getInt j "id"))
    | "slot" => pure (.slot (← getStr j "table"))
    | "other" => pure (.other (← getStr j "cls"))
    | _ => pure (.sc (← parseSc j))

def parseDict {α : Type} (f : Json → Except String α) (j : Json) : Except String (Dict α) := do
  let a ← j.getArr?
  let l ← a.toList.mapM (fun (kv : Json) => do
    match (← kv.getArr?).toList with
    | [k, v] => pure ((← k.getStr?), (← f v))
    | _ => throw "bad pair")
  pure l

def parseRow (j : Json) : Except String Row := do
  pure ⟨← getStr j "table", ← parseDict parseVal (← j.getObjVal? "values")⟩

def parseDep (j : Json) : Except String Dep := do
  match (← j.getArr?).toList with
  | [a, b, c] => pure ⟨← a.getStr?, ← b.getStr?, ← c.getStr?⟩
  | _ => throw "bad dependency"

def parseG (j : Json) : Except String G := do
  let deps ← (← getArr j "deps").toList.mapM parseDep
  pure { lastUsed := ← parseDict (fun v => v.getInt?) (← j.getObjVal? "lastUsed"),
         startIds := ← parseDict (fun v => v.getInt?) (← j.getObjVal? "startIds"),
         pNick := ← parseDict parseRow (← j.getObjVal? "pNick"),
         pTable := ← parseDict parseRow (← j.getObjVal? "pTable"),
         nickTable := ← parseDict (fun v => v.getStr?) (← j.getObjVal? "nickTable"),
         today := ← parseSc (← j.getObjVal? "today"),
         deps := deps }

def scToJson : Sc → Json
  | .null => Json.null
  | .str s => Json.mkObj [("t", "str"), ("v", Json.str s)]
  | .int i => Json.mkObj [("t", "int"), ("v", Json.str (toString i))]
  | .float r => Json.mkObj [("t", "float"), ("v", Json.str r)]
  | .bool b => Json.mkObj [("t", "bool"), ("v", Json.bool b)]
  | .date s => Json.mkObj [("t", "date"), ("v", Json.str s)]
  | .datetime s => Json.mkObj [("t", "datetime"), ("v", Json.str s)]
  | .decimal s => Json.mkObj [("t", "decimal"), ("v", Json.str s)]

def valToJson : Val → Json
  | .sc v => scToJson v
  | .row t i => Json.mkObj [("t", "ref"), ("table", Json.str t), ("id", Json.num (JsonNumber.fromInt i))]
  | .slot t => Json.mkObj [("t", "slot"), ("table", Json.str t)]
  | .other c => Json.mkObj [("t", "other"), ("cls", Json.str c)]

def dictToJson {α : Type} (f : α → Json) (d : Dict α) : Json :=
  Json.arr (d.map (fun kv => Json.arr #[Json.str kv.1, f kv.2])).toArray

def intJ (i : Int) : Json := Json.num (JsonNumber.fromInt i)

def rowToJson (r : Row) : Json :=
  Json.mkObj [("table", Json.str r.table), ("values", dictToJson valToJson r.values)]

def gToJson (g : G) : Json :=
  Json.mkObj [
    ("lastUsed", dictToJson intJ g.lastUsed), ("startIds", dictToJson intJ g.startIds),
    ("pNick", dictToJson rowToJson g.pNick), ("pTable", dictToJson rowToJson g.pTable),
    ("nickTable", dictToJson Json.str g.nickTable), ("today", scToJson g.today),
    ("deps", Json.arr (g.deps.map (fun d => Json.arr #[Json.str d.tableFrom, Json.str d.tableTo, Json.str d.field])).toArray)]

def errToJson : Err → Json
  | .cannotRepresent c => Json.arr #[Json.str "RepresenterError", Json.str c]
  | .keyError k => Json.arr #[Json.str "KeyError", Json.str k]
  | .shape k => Json.arr #[Json.str "shape", Json.str k]

def rowEntryToJson : RowEntry Sc → Json
  | .name s => Json.str s
  | .values d => dictToJson scToJson d

/-- the document as ordered key/value pairs (order = order in the file) -/
def topToJson : Top Sc → Json
  | .rows d => dictToJson (dictToJson rowEntryToJson) d
  | .idm d => dictToJson (dictToJson intJ) d
  | .sc v => scToJson v
  | .names d => dictToJson Json.str d
  | .deps l => Json.arr (l.map (dictToJson Json.str)).toArray

def idY : Yaml Sc := ⟨id, id⟩

def exceptToJson {α : Type} (f : α → Json) : Except Err α → Json
  | .ok a => Json.mkObj [("ok", f a)]
  | .error e => Json.mkObj [("error", errToJson e)]

def handle (m : String) (j : Json) : Except String Json := do
  match m with
  | "c05.cycle" =>
    -- save, load, save again, chain of n; the history restore for `keep`
    let g ← parseG (← j.getObjVal? "g")
    let n ← getNat j "n"
    let keep ← (← getArr j "keep").toList.mapM (fun (x : Json) => x.getStr?)
    let saved := saveFile idY g
    let loaded : Except Err G := match saved with
      | .error e => .error e
      | .ok doc => loadFile idY doc
    let resaved2 : Except Err (StateOf Sc) := match loaded with
      | .error e => .error e
      | .ok g1 => saveFile idY g1
    let res : List Json := match loaded with
      | .ok g1 => (resaved g1 keep).map (fun (e : String × Option String × Row) =>
          Json.arr #[Json.str e.1, (match e.2.1 with | none => Json.null | some s => Json.str s),
                     (match e.2.2.id? with | some v => valToJson v | none => Json.str "missing")])
      | .error _ => []
    pure (Json.mkObj [
      ("save", exceptToJson (dictToJson topToJson) saved),
      ("load", exceptToJson gToJson loaded),
      ("resave_same", Json.bool (match saved, resaved2 with
        | .ok a, .ok b => decide (a = b)
        | _, _ => false)),
      ("chain", exceptToJson gToJson (chain idY n g)),
      ("history", Json.arr res.toArray)])
  | _ => throw s!"unknown method {m}"

end SnowModel.Drv.C05
