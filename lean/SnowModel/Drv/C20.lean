import SnowModel.Drv.Util
import SnowModel.Core.ParseCheck
open Lean

namespace SnowModel.Drv.C20
open SnowModel.ParseCheck SnowModel.Drv

/-- JSON encoding of a YAML value: `null`, `true`, `5`, `"s"`, `[…]`, `{"f": "<repr>"}` (float),
    `{"d": "<iso>"}` (date), `{"m": [[key, value], …]}` (mapping, in document order) -/
partial def parseY (j : Json) : Except String Y :=
  match j with
  | .null => pure .null
  | .bool b => pure (.bool b)
  | .num _ => do
    let i ← j.getInt?
    pure (.int i)
  | .str s => pure (.str s)
  | .arr a => do
    let xs ← a.toList.mapM parseY
    pure (.list xs)
  | .obj _ =>
    match j.getObjVal? "f" with
    | .ok (.str t) => pure (.float t)
    | _ =>
      match j.getObjVal? "d" with
      | .ok (.str t) => pure (.date t)
      | _ =>
        match j.getObjVal? "m" with
        | .ok (.arr kvs) => do
          let l ← kvs.toList.mapM (fun p => do
            let a ← p.getArr?
            match a.toList with
            | [k, v] => do
              let k' ← parseY k
              let v' ← parseY v
              pure (k', v')
            | _ => throw "bad map entry")
          pure (.map l)
        | _ => throw "bad object"

def optStr : Option String → Json
  | some s => Json.str s
  | none => Json.null

partial def digest : Ast → Json
  | .simple _ => Json.arr #[Json.str "S"]
  | .struct fn pos kw =>
    Json.arr #[Json.str "F", Json.str fn, Json.arr (pos.map digest).toArray,
               Json.arr (kw.map (fun p => Json.arr #[Json.str p.1, digest p.2])).toArray]
  | .tmpl table nick jo uk fields friends count fe =>
    Json.arr #[Json.str "T", Json.str table, optStr nick, Json.bool jo, optStr uk,
               Json.arr (fields.map (fun p => Json.arr #[Json.str p.1, digest p.2])).toArray,
               Json.arr (friends.map digest).toArray,
               (match count with | some c => digest c | none => Json.null),
               (match fe with | some p => Json.arr #[Json.str p.1, digest p.2] | none => Json.null)]
  | .var name v => Json.arr #[Json.str "V", Json.str name, digest v]

def errName : Err → String
  | .syntax => "DataGenSyntaxError"
  | .generic => "DataGenError"
  | .name => "DataGenNameError"
  | .import_ => "DataGenImportError"

def handle (m : String) (j : Json) : Except String Json := do
  match m with
  | "c20.check" =>
    let doc ← parseY (← j.getObjVal? "doc")
    let fuel ← getNat j "fuel"
    let plugins ← (← getArr j "plugins").toList.mapM (fun p => p.getStr?)
    let files ← (← getArr j "files").toList.mapM (fun p => do
      let a ← p.getArr?
      match a.toList with
      | [n, c] => do
        let name ← n.getStr?
        match c with
        | .str "yaml_error" => pure (name, FileContent.yamlError)
        | _ => do
          let y ← parseY c
          pure (name, FileContent.doc y)
      | _ => throw "bad file entry")
    let env : Env := { files := files, plugins := plugins }
    let st := stage fuel env doc
    match check fuel env doc with
    | .ok p refs =>
      pure (Json.mkObj [("class", Json.str "ok"), ("stage", Json.str st),
        ("statements", Json.arr (p.statements.map digest).toArray),
        ("version", match p.version with | some v => Json.num (JsonNumber.fromNat v) | none => Json.null),
        ("options", Json.num (JsonNumber.fromNat p.options.length)),
        ("refs", Json.num (JsonNumber.fromNat refs.length))])
    | .recipeError e =>
      pure (Json.mkObj [("class", Json.str "recipe_error"), ("stage", Json.str st), ("err", Json.str (errName e))])
    | .stuck s =>
      pure (Json.mkObj [("class", Json.str "stuck"), ("stage", Json.str st), ("site", Json.str s.name)])
    | .fuel =>
      pure (Json.mkObj [("class", Json.str "fuel"), ("stage", Json.str st)])
  | _ => throw s!"unknown method {m}"

end SnowModel.Drv.C20
