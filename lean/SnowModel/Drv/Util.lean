import Lean.Data.Json
open Lean

namespace SnowModel.Drv

def getInt (j : Json) (k : String) : Except String Int := do
  let v ← j.getObjVal? k
  v.getInt?

def getNat (j : Json) (k : String) : Except String Nat := do
  let v ← j.getObjVal? k
  v.getNat?

def getStr (j : Json) (k : String) : Except String String := do
  let v ← j.getObjVal? k
  v.getStr?

def getArr (j : Json) (k : String) : Except String (Array Json) := do
  let v ← j.getObjVal? k
  v.getArr?

def getBool (j : Json) (k : String) : Except String Bool := do
  let v ← j.getObjVal? k
  v.getBool?

def optField (j : Json) (k : String) : Option Json :=
  match j.getObjVal? k with
  | .ok Json.null => none
  | .ok v => some v
  | .error _ => none

def intsToJson (l : List Int) : Json := Json.arr (l.map (fun (i : Int) => Json.num (JsonNumber.fromInt i))).toArray
def natsToJson (l : List Nat) : Json := Json.arr (l.map (fun (i : Nat) => Json.num (JsonNumber.fromNat i))).toArray

end SnowModel.Drv
