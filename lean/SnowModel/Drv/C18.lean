import SnowModel.Drv.Util
import SnowModel.Core.FakeContact
open Lean

namespace SnowModel.Drv.C18
open SnowModel.FakeContact SnowModel.Drv

def strJ (s : Str) : Json := Json.str (String.ofList s)

def optStr (j : Json) (k : String) : Str :=
  match optField j k with
  | some (Json.str s) => s.toList
  | _ => []

def optNat (j : Json) (k : String) : Nat :=
  match optField j k with
  | some v => (v.getNat?.toOption).getD 0
  | none => 0

def optBool (j : Json) (k : String) (dflt : Bool) : Bool :=
  match optField j k with
  | some (Json.bool b) => b
  | _ => dflt

def tagToTVal (tag : Str) : TVal :=
  if tag = "NotImplemented".toList then .notImpl
  else if tag = "email".toList then .impl .email
  else if tag = "user_name".toList then .impl .userName
  else .impl (.other tag)

def tvalTag : TVal → Str
  | .notImpl => "NotImplemented".toList
  | .impl .email => "email".toList
  | .impl .userName => "user_name".toList
  | .impl (.other t) => t

def parseDir (a : Array Json) : Except String DirList :=
  a.toList.mapM fun p => do
    let q ← p.getArr?
    match q.toList with
    | [Json.str n, Json.str tag] => pure (n.toList, tagToTVal tag.toList)
    | _ => throw "bad dir entry"

def parseTable (j : Json) : Except String (List (Str × TVal)) := do
  let fk ← parseDir (← getArr j "faker")
  let ig ← (← getArr j "ignore").toList.mapM fun x => do pure (← x.getStr?).toList
  let sn ← match optField j "snow" with
    | some (Json.arr a) => parseDir a
    | _ => pure snowDir
  pure (buildTable fk ig sn)

def isAsciiStr (s : Str) : Bool := s.all isAsciiC

def parseCall (j : Json) : Except String Call := do
  let sp := optStr j "sp"
  let other : LVal := match optField j "other" with
    | some (Json.str s) => .str s.toList
    | _ => .nonStr
  pure { spelling := sp, matching := optBool j "m" true,
         d := { tmpl := optNat j "tmpl", domain := optStr j "domain", year := optNat j "year",
                fallback := optStr j "fallback", host := optStr j "host", first := optStr j "first",
                last := optStr j "last", uuid := optStr j "uuid", other := other } }

def resJ : Res → Json
  | .value (.str s) => Json.arr #[Json.str "value", strJ s]
  | .value .nonStr => Json.arr #[Json.str "value", Json.null]
  | .noSuchName => Json.arr #[Json.str "noSuchName"]
  | .formatError => Json.arr #[Json.str "formatError"]
  | .outsideModel => Json.arr #[Json.str "outsideModel"]

def lookupJ : Lookup → Json
  | .found p => strJ (tvalTag (.impl p))
  | .noSuchName => Json.null

def handle (m : String) (j : Json) : Except String Json := do
  match m with
  | "c18.templates" => pure (Json.arr (emailTemplates.map strJ).toArray)
  | "c18.snow_dir" =>
    pure (Json.arr (snowDir.map fun e => Json.arr #[strJ e.1, strJ (tvalTag e.2)]).toArray)
  | "c18.reserved" => pure (Json.arr (reservedDomains.map strJ).toArray)
  | "c18.sanitise" =>
    match sanitise (← getStr j "s").toList with
    | some r => pure (strJ r)
    | none => pure Json.null
  | "c18.lookup" =>
    let t ← parseTable j
    let sps ← (← getArr j "spellings").toList.mapM fun x => do pure (← x.getStr?).toList
    if sps.any (fun s => !isAsciiStr s) then throw "outsideFragment: non-ASCII spelling"
    pure (Json.arr (sps.map fun s => lookupJ (getFake t s)).toArray)
  | "c18.run" =>
    let t ← parseTable j
    let calls ← (← getArr j "calls").toList.mapM parseCall
    if calls.any (fun c => !isAsciiStr c.spelling) then throw "outsideFragment: non-ASCII spelling"
    pure (Json.arr ((runCalls t [] calls).map resJ).toArray)
  | _ => throw s!"unknown method {m}"

end SnowModel.Drv.C18
