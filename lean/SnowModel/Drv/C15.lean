import SnowModel.Drv.Util
import SnowModel.Core.Rrule
open Lean

namespace SnowModel.Drv.C15
open SnowModel.Rrule SnowModel.Civil SnowModel.Drv

def optInts (j : Json) (k : String) : Except String (Option (List Int)) :=
  match optField j k with
  | none => pure none
  | some v => do
    let a ← v.getArr?
    let l ← a.toList.mapM (fun x => x.getInt?)
    pure (some l)

def optNat (j : Json) (k : String) : Except String (Option Nat) :=
  match optField j k with
  | none => pure none
  | some v => do pure (some (← v.getNat?))

def optInt (j : Json) (k : String) : Except String (Option Int) :=
  match optField j k with
  | none => pure none
  | some v => do pure (some (← v.getInt?))

def parseFreq (s : String) : Except String Freq :=
  match s with
  | "YEARLY" => pure .yearly
  | "MONTHLY" => pure .monthly
  | "WEEKLY" => pure .weekly
  | "DAILY" => pure .daily
  | "HOURLY" => pure .hourly
  | "MINUTELY" => pure .minutely
  | "SECONDLY" => pure .secondly
  | _ => throw s!"bad freq {s}"

def parseDateArg (j : Json) : Except String DateArg := do
  let k ← getStr j "k"
  match k with
  | "date" => pure (.date (← getNat j "ord"))
  | "dtobj" => pure (.dtObj (← getNat j "ord") (← getNat j "sod") ((← optNat j "us").getD 0) (← optInt j "off"))
  | "dtstr" => pure (.dtStr (← getNat j "ord") (← getNat j "sod") ((← optNat j "us").getD 0) (← optInt j "off"))
  | _ => throw s!"bad date arg {k}"

def parseWDays (j : Json) (k : String) : Except String (Option (List WDay)) :=
  match optField j k with
  | none => pure none
  | some v => do
    let a ← v.getArr?
    let l ← a.toList.mapM (fun x => do
      let q ← x.getArr?
      match q.toList with
      | [w, n] => pure (WDay.mk (← w.getNat?) (← n.getInt?))
      | _ => throw "bad weekday")
    pure (some l)

def parseParams (j : Json) : Except String Params := do
  let unt ← match optField j "until" with
    | none => pure none
    | some v => do pure (some (← parseDateArg v))
  pure {
    freq := ← parseFreq (← getStr j "freq"),
    sOrd := ← getNat j "sord", sSod := ← getNat j "ssod", sUs := (← optNat j "sus").getD 0, off := ← getInt j "off",
    datePrecision := ← getBool j "dprec",
    interval := ← getInt j "interval",
    count := ← optNat j "count",
    untilArg := unt,
    bymonth := ← optInts j "bymonth", bymonthday := ← optInts j "bymonthday",
    byyearday := ← optInts j "byyearday", byweekno := ← optInts j "byweekno",
    byweekday := ← parseWDays j "byweekday",
    byhour := ← optInts j "byhour", byminute := ← optInts j "byminute", bysecond := ← optInts j "bysecond" }

def errName : Err → String
  | .badInterval => "badInterval"
  | .emptyRule => "emptyRule"
  | .badTime => "badTime"
  | .outside => "outside"

/-- evaluation result: instants, or a model-level outcome name -/
abbrev Res := Except String (List Inst × List Int)

/-- instants carried by two sources with different utcoffsets: `rruleset` emits one of them
    (whichever its heap pops first), the model does not predict which -/
def tiesAdj : List Inst → List Int
  | a :: b :: t => if a.key == b.key && a.off != b.off then a.abs :: tiesAdj (b :: t) else tiesAdj (b :: t)
  | _ => []

def tiesOf (l : List Inst) : List Int :=
  tiesAdj (l.mergeSort (fun a b => a.key < b.key || (a.key == b.key && a.off ≤ b.off)))

/-- a `Schedule.Event` with its `include` / `exclude` entries (nested events evaluated
    recursively; `fuel` bounds the nesting depth) -/
def evalSet (intended : Bool) (H : Int) : Nat → Json → Except String Res
  | 0, _ => throw "nesting too deep"
  | fuel + 1, j => do
    let p ← parseParams (← j.getObjVal? "p")
    let incl := (optField j "include").bind (fun v => v.getArr?.toOption) |>.getD #[]
    let excl := (optField j "exclude").bind (fun v => v.getArr?.toOption) |>.getD #[]
    match pluginCheck p with
    | .error .gated => return (.error "gated")
    | .error .badInterval => return (.error "badInterval")
    | .error .needsDatetime => return (.error "needsDatetime")
    | .error (.rule e) => return (.error (errName e))
    | .ok _ => pure ()
    let r := if intended then intendedRule p else pluginRule p
    match occ r H with
    | .error e => return (.error (errName e))
    | .ok ls =>
      let base := ls.map r.inst
      let norm := if intended then intendedDateArg p.sSod p.off else normDateArg p.sSod p.sUs p.off
      let split (a : Array Json) : Except String (Except String (List Inst × List (List Inst) × List Int)) := do
        let mut dates : List Inst := []
        let mut sets : List (List Inst) := []
        let mut ties : List Int := []
        for x in a.toList do
          let k ← getStr x "k"
          if k == "set" then
            match ← evalSet intended H fuel (← x.getObjVal? "set") with
            | .error e => return (.error e)
            | .ok (l, t) =>
              sets := sets ++ [l]
              ties := ties ++ t
          else
            match norm (← parseDateArg x) with
            | none => return (.error "naiveDatetime")
            | some i => dates := dates ++ [i]
        return (.ok (dates, sets, ties))
      -- the plugin processes `exclude` before `include`
      match ← split excl with
      | .error e => return (.error e)
      | .ok (exd, exs, _) =>
        match ← split incl with
        | .error e => return (.error e)
        | .ok (ind, ins, t) =>
          return (.ok (combine base ind exd ins exs, t ++ tiesOf (ind ++ base ++ ins.flatten)))

def outToJson : Out → Json
  | .date o => Json.arr #[Json.str "d", Json.num (JsonNumber.fromInt o)]
  | .datetime a o u => Json.arr #[Json.str "dt", Json.num (JsonNumber.fromInt a), Json.num (JsonNumber.fromInt o), Json.num (JsonNumber.fromNat u)]

def handle (m : String) (j : Json) : Except String Json := do
  match m with
  | "c15.eval" =>
    let H ← getInt j "horizon"
    let viaNext ← getBool j "viaNext"
    let intended := (optField j "intended").bind (fun v => v.getBool?.toOption) |>.getD false
    let s ← j.getObjVal? "set"
    let p ← parseParams (← s.getObjVal? "p")
    match ← evalSet intended H 8 s with
    | .error e => pure (Json.mkObj [("outcome", Json.str e)])
    | .ok (l, ties) =>
      let l := l.filter (fun i => i.abs ≤ H)
      pure (Json.mkObj [("outcome", Json.str "ok"), ("ties", intsToJson ties),
        ("out", Json.arr ((l.map (fun i => outToJson (emit p.datePrecision viaNext i))).toArray))])
  | "c15.civil" =>
    -- calendar probe: ordinal -> [y, m, d, weekday, yearday], and back
    let n ← getNat j "ord"
    let x := ofOrd n
    pure (natsToJson [x.y, x.m, x.d, weekday n, yearday n, toOrd x.y x.m x.d])
  | _ => throw s!"unknown method {m}"

end SnowModel.Drv.C15
