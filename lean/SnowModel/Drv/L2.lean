import SnowModel.Drv.Util
import SnowModel.Core.L2
import SnowModel.Core.L2Hyp
open Lean

namespace SnowModel.Drv.L2
open SnowModel.L2 SnowModel.Drv

partial def parseExpr (j : Json) : Except String Expr := do
  let a ← j.getArr?
  match a.toList with
  | [Json.str "int", n] => pure (.int (← n.getInt?))
  | [Json.str "name", n] => pure (.name (← n.getStr?))
  | [Json.str "attr", e, f] => pure (.attr (← parseExpr e) (← f.getStr?))
  | [Json.str "add", x, y] => pure (.add (← parseExpr x) (← parseExpr y))
  | [Json.str "sub", x, y] => pure (.sub (← parseExpr x) (← parseExpr y))
  | [Json.str "mul", x, y] => pure (.mul (← parseExpr x) (← parseExpr y))
  | _ => throw "bad expr"

def parsePart (j : Json) : Except String Part := do
  let a ← j.getArr?
  match a.toList with
  | [Json.str "text", t] => pure (.text (← t.getStr?))
  | [Json.str "expr", e] => pure (.expr (← parseExpr e))
  | _ => throw "bad part"

def parseLit (j : Json) : Except String Lit :=
  match j with
  | Json.null => pure .null
  | Json.bool b => pure (.bool b)
  | Json.str s => pure (.str s)
  | Json.num _ => do pure (.int (← j.getInt?))
  | _ => throw "bad literal"

mutual
  partial def parseFd (j : Json) : Except String FieldDef := do
    let a ← j.getArr?
    match a.toList with
    | [Json.str "lit", v] => pure (.lit (← parseLit v))
    | [Json.str "tmpl", ps] => pure (.tmpl (← (← ps.getArr?).mapM parsePart).toList)
    | [Json.str "ref", p] => pure (.ref ((← p.getStr?).splitOn "."))
    | [Json.str "nested", t] => pure (.nested (← parseTemplate t))
    | _ => throw "bad field definition"

  partial def parseTemplate (j : Json) : Except String Template := do
    let table ← getStr j "object"
    let nick ← (match optField j "nickname" with | some v => do pure (some (← v.getStr?)) | none => pure none)
    let jo ← (match optField j "just_once" with | some v => v.getBool? | none => pure false)
    let count ← (match optField j "count" with | some v => do pure (some (← parseFd v)) | none => pure none)
    let fields ← (match optField j "fields" with
      | some v => do
        (← v.getArr?).mapM (fun p => do
          let q ← p.getArr?
          match q.toList with
          | [n, fd] => pure ((← n.getStr?), (← parseFd fd))
          | _ => throw "bad field")
      | none => pure #[])
    let friends ← (match optField j "friends" with
      | some v => do (← v.getArr?).mapM parseStmt
      | none => pure #[])
    pure (.mk table nick jo count fields.toList friends.toList)

  partial def parseStmt (j : Json) : Except String Stmt := do
    match optField j "var" with
    | some v => pure (.var (← v.getStr?) (← parseFd (← j.getObjVal? "value")))
    | none => pure (.obj (← parseTemplate j))
end

def parseRecipe (j : Json) : Except String Recipe := do
  let v ← getNat j "version"
  let opts ← (match optField j "options" with
    | some o => do
      (← o.getArr?).mapM (fun p => do
        let q ← p.getArr?
        match q.toList with
        | [n, l] => pure ((← n.getStr?), (← parseLit l))
        | _ => throw "bad option")
    | none => pure #[])
  let sts ← (← getArr j "statements").mapM parseStmt
  pure { v3 := v == 3, options := opts.toList, statements := sts.toList }

def ovalJ : OVal → Json
  | .null => Json.null
  | .bool b => Json.mkObj [("t", "bool"), ("v", Json.bool b)]
  | .int i => Json.num (JsonNumber.fromInt i)
  | .str s => Json.mkObj [("t", "str"), ("v", Json.str s)]
  | .ref t i => Json.mkObj [("t", "ref"), ("table", Json.str t), ("id", Json.num (JsonNumber.fromNat i))]

def outRowJ (r : OutRow) : Json :=
  Json.arr #[Json.str r.table, Json.arr (r.fields.map (fun p => Json.arr #[Json.str p.1, ovalJ p.2])).toArray]

def handle (m : String) (j : Json) : Except String Json := do
  match m with
  | "l2.run" =>
    let r ← parseRecipe (← j.getObjVal? "recipe")
    let parts ← (← getArr j "parts").mapM (fun (v : Json) => v.getNat?)
    let fuel := (optField j "fuel").bind (fun v => v.getNat?.toOption) |>.getD 3000
    let fs := (optField j "final_save").bind (fun v => v.getBool?.toOption) |>.getD true
    let o := runChain fuel r parts.toList fs
    pure (Json.mkObj [("status", Json.str o.status), ("rows", Json.arr (o.out.map outRowJ).toArray)])
  | "l2.hyp" =>
    -- the decidable hypotheses of the split theorems (Props/C04L2) on this recipe and composition
    let r ← parseRecipe (← j.getObjVal? "recipe")
    let parts ← (← getArr j "parts").mapM (fun (v : Json) => v.getNat?)
    let fuel := (optField j "fuel").bind (fun v => v.getNat?.toOption) |>.getD 3000
    pure (Json.mkObj [("no_top_vars", Json.bool (noVarStmts r.statements)),
                      ("lit_once", Json.bool (LitOnceFd.LitOnceStmts r.statements)),
                      ("positive", Json.bool (parts.toList.all (fun k => decide (0 < k)))),
                      ("clean_cuts", Json.bool (cleanCuts fuel r false parts.toList false (initSt r))),
                      ("clean_cuts_final", Json.bool (cleanCuts fuel r true parts.toList false (initSt r)))])
  | "l2.look_for_number" =>
    let x ← getStr j "s"
    match lookForNumber x with
    | .ok (.int i) => pure (Json.num (JsonNumber.fromInt i))
    | .ok (.str t) => pure (Json.mkObj [("t", "str"), ("v", Json.str t)])
    | .ok _ => pure (Json.str "other")
    | .error _ => pure (Json.str "outside")
  | _ => throw s!"unknown method {m}"

end SnowModel.Drv.L2
