#!/bin/bash
# usage: run_mutations.sh [m1 m2 ...]   — applies each diff to a scratch copy of the snapshot and runs the quick check
cd "$(dirname "$0")/../.."
ROOT=$(pwd)
MUTS=${@:-$(ls mutation_tests/C11/*.diff | xargs -n1 basename | sed 's/.diff//')}
for m in $MUTS; do
  rm -rf /tmp/work/mut_C11
  cp -r /tmp/work/repo_snap13 /tmp/work/mut_C11
  (cd /tmp/work/mut_C11 && patch -p1 -s < $ROOT/mutation_tests/C11/$m.diff) || { echo "$m: patch failed"; continue; }
  before=$(ls replays/C11 2>/dev/null | sort)
  echo "=== $m: $(head -1 mutation_tests/C11/$m.diff)"
  VERIF_REPO=/tmp/work/mut_C11 ./check C11 quick 2>&1 | grep -v "conda\|WARNING" | grep "VIOLATION\|^check C11" 
  echo "exit=${PIPESTATUS[0]}"
  for f in $(ls replays/C11 2>/dev/null | sort); do
    if ! echo "$before" | grep -q "$f"; then
      /venv/bin/python - "$ROOT/replays/C11/$f" <<'PY'
import json,sys
r=json.load(open(sys.argv[1]))
print("   replay kind=%s signature=%s" % (r.get("kind"), r.get("signature")))
if r.get("what"): print("   what:", r["what"][:240])
if r.get("case"): print("   case:", json.dumps(r["case"])[:300])
for b in (r.get("no_longer_checks") or r.get("broken_ties") or [])[:6]:
    print("   broken:", b["kind"], b["name"], b["detail"][:160].replace("\n"," "))
PY
      rm -f replays/C11/$f
    fi
  done
done
rm -rf /tmp/work/mut_C11
# restore the pins / build products of the unchanged snapshot
VERIF_REPO=/tmp/work/repo_snap13 /venv/bin/python -c "import sys; sys.path.insert(0,'.'); from tools import py2lean; py2lean.regenerate(only=['BoundedFuncs','TemplateUtils'])"
