#!/bin/bash
# Reverts each fix commit on a scratch copy of the repaired snapshot and runs the quick check:
# the repaired defect must come back as a VIOLATION with its recorded signature.
cd "$(dirname "$0")/../.."
ROOT=$(pwd)
# `a+b` reverts commit a, then b (919a3ea can only be reverted after a6412d5, which rewrote the same lines)
for h in ${@:-cfed176 f914bf1 e0d1353 a6412d5 a6412d5+919a3ea}; do
  rm -rf /tmp/work/mut_C11
  cp -r /tmp/work/repo_snap13 /tmp/work/mut_C11
  ok=1
  for c in ${h//+/ }; do
    (cd /tmp/work/mut_C11 && git -C /repo show $c -- snowfakery | patch -R -p1 -s) || ok=0
  done
  [ $ok = 1 ] || { echo "$h: revert failed"; continue; }
  before=$(ls replays/C11 2>/dev/null | sort)
  echo "=== revert $h: $(git -C /repo log -1 --format=%s ${h##*+})"
  VERIF_REPO=/tmp/work/mut_C11 ./check C11 quick 2>&1 | grep "VIOLATION\|^check C11\|KNOWN-FINDING" | cut -c1-200
  for f in $(ls replays/C11 2>/dev/null | sort); do
    if ! echo "$before" | grep -q "$f"; then
      /venv/bin/python - "$ROOT/replays/C11/$f" <<'PY'
import json,sys
r=json.load(open(sys.argv[1]))
print("   replay kind=%s signature=%s" % (r.get("kind"), r.get("signature")))
if r.get("what"): print("   what:", r["what"][:260])
if r.get("case"): print("   case:", json.dumps(r["case"])[:320])
PY
      rm -f replays/C11/$f
    fi
  done
done
rm -rf /tmp/work/mut_C11
VERIF_REPO=/tmp/work/repo_snap13 /venv/bin/python -c "import sys; sys.path.insert(0,'.'); from tools import py2lean; py2lean.regenerate(only=['BoundedFuncs','TemplateUtils'])"
