#!/bin/bash
# Apply each mutation to a scratch copy of the snapshot and run the quick check against it.
# usage: mutation_tests/C16/run.sh [m1 m2 …]     (run from the framework root)
SNAP=${VERIF_SNAP:-/tmp/work/repo_snap13}
MUT=/tmp/work/mut_C16
HERE=$(cd "$(dirname "$0")" && pwd)
ROOT=$(cd "$HERE/../.." && pwd)
cd "$ROOT"
ms=${@:-m1 m2 m3 m4 m5 m6 m7 m8 m9 m10 revert_D05 revert_D23 revert_D14}
for m in $ms; do
  rm -rf "$MUT"; cp -r "$SNAP" "$MUT"
  find "$MUT" -name __pycache__ -prune -exec rm -rf {} + 2>/dev/null
  R=""; case "$m" in revert_*) R="-R";; esac   # revert_<id>.diff = `git show <fix commit>`, applied in reverse
  (cd "$MUT" && patch -s $R -p1 < "$HERE/$m.diff") || { echo "$m: patch failed"; continue; }
  out=$(VERIF_REPO="$MUT" ./check C16 quick 2>&1 | grep -v "conda" )
  rc=${PIPESTATUS[0]}
  echo "=== $m"
  echo "$out" | grep -E "^VIOLATION|^check C16" 
  for r in $(echo "$out" | grep -oE "replays/C16/[0-9a-f]+\.json" | sort -u); do
    /venv/bin/python - "$r" <<'PY'
import json, sys
r = json.load(open(sys.argv[1]))
print("   replay", sys.argv[1], "kind=", r["kind"], "signature=", r.get("signature"))
if r["kind"] == "failing-input":
    print("   what:", r["what"][:300])
    c = r["case"]
    print("   input:", (c.get("text") or json.dumps({k: c[k] for k in c if k in ("tables","deps","decls","inferred","declared")}))[:600].replace("\n", "\n          "))
else:
    for b in r.get("no_longer_checks", [])[:6]:
        print("   broken:", b["kind"], b["name"], b["detail"][:200].replace("\n"," "))
PY
  done
done
rm -rf "$MUT"
# restore the pins / build products for the unchanged snapshot
VERIF_REPO="$SNAP" /venv/bin/python -c "
import sys; sys.path.insert(0,'.')
from tools import py2lean; py2lean.regenerate(only=['MappingGen'])" 2>/dev/null
