#!/bin/bash
# Apply each mutation to a scratch copy of the snapshot and run the quick check against it.
# usage: mutation_tests/C14/run.sh [m1 m2 … | revert:<fix commit>]     (run from the framework root)
SNAP=${VERIF_SNAP:-/tmp/work/repo_snap11}
MUT=/tmp/work/mut_C14
HERE=$(cd "$(dirname "$0")" && pwd)
ROOT=$(cd "$HERE/../.." && pwd)
cd "$ROOT"
ms=${@:-m1 m2 m3 m4 m5 m6 m7 m8 m9 m10 m11 m12 m13}
restore_pins() {
  VERIF_REPO="$SNAP" /venv/bin/python -c "
import sys; sys.path.insert(0,'.')
from tools import py2lean; py2lean.regenerate(only=['Compose'])" 2>/dev/null
}
for m in $ms; do
  restore_pins   # a mutation that breaks the pin extraction leaves the previous Generated file in place
  rm -rf "$MUT"; cp -r "$SNAP" "$MUT"
  find "$MUT" -name __pycache__ -prune -exec rm -rf {} + 2>/dev/null
  if [[ "$m" == revert:* ]]; then
    # revert a fix: commit on the scratch copy (regression test for a repaired defect)
    (cd "$MUT" && git show "${m#revert:}" | patch -s -R -p1 -F3) || { echo "$m: revert failed"; continue; }
  else
    (cd "$MUT" && patch -s -p1 < "$HERE/$m.diff") || { echo "$m: patch failed"; continue; }
  fi
  rm -rf replays/C14
  out=$(VERIF_REPO="$MUT" ./check C14 quick 2>&1 | grep -v "conda" )
  echo "=== $m"
  echo "$out" | grep -E "^VIOLATION|^check C14"
  for r in $(echo "$out" | grep -oE "replays/C14/[0-9a-f]+\.json" | sort -u); do
    /venv/bin/python - "$r" <<'PY'
import json, sys
r = json.load(open(sys.argv[1]))
print("   replay", sys.argv[1], "kind=", r["kind"], "signature=", r.get("signature"))
if r["kind"] == "failing-input":
    print("   what:", r["what"][:400])
    c = r["case"]
    if "texts" in c:
        for n, t in c["texts"].items():
            print("   ---", n); print("      " + t.strip().replace("\n", "\n      "))
    else:
        print("   input:", json.dumps({k: c[k] for k in c if k not in ("recipe",)})[:500])
    for n, t in (c.get("extra") or {}).items():
        print("   --- (data file)", n, repr(t))
    for b in r.get("broken_ties", [])[:4]:
        print("   broken:", b["kind"], b["name"], b["detail"][:160].replace("\n", " "))
else:
    for b in r.get("no_longer_checks", [])[:6]:
        print("   broken:", b["kind"], b["name"], b["detail"][:200].replace("\n", " "))
PY
  done
done
rm -rf "$MUT"
# restore the pins / build products for the unchanged snapshot
VERIF_REPO="$SNAP" /venv/bin/python -c "
import sys; sys.path.insert(0,'.')
from tools import py2lean; py2lean.regenerate(only=['Compose'])" 2>/dev/null
(cd lean && lake build SnowModel.Props.C14Bridge >/dev/null 2>&1)
