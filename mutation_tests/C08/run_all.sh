#!/bin/bash
# Apply each mutation to a scratch copy of the snapshot and run the quick check against it.
# usage: mutation_tests/C08/run_all.sh [snapshot=/tmp/work/repo_snap] [scratch=/tmp/work/mut_C08]
SNAP=${1:-/tmp/work/repo_snap14}; SCR=${2:-/tmp/work/mut_C08}
HERE=$(cd "$(dirname "$0")" && pwd); ROOT=$(cd "$HERE/../.." && pwd)
for d in "$HERE"/m*.diff; do
  m=$(basename "$d" .diff)
  rm -rf "$SCR"; cp -r "$SNAP" "$SCR"
  (cd "$SCR" && patch -p1 -s < "$d") || { echo "$m: patch failed"; continue; }
  rm -rf "$ROOT/replays/C08"
  out=$(cd "$ROOT" && VERIF_REPO="$SCR" ./check C08 quick 2>&1 | grep -v conda)
  rc=$?
  echo "== $m"
  echo "$out" | grep -E "^VIOLATION|^check C08" 
  for r in "$ROOT"/replays/C08/*.json; do
    [ -f "$r" ] && /venv/bin/python - "$r" <<'PY'
import json,sys
r=json.load(open(sys.argv[1]))
print("   replay:", r["kind"], r.get("signature",""), "|", (r.get("what") or "")[:230])
if r["kind"]=="failing-input":
    c=r["case"]; print("   input:", json.dumps({k:c[k] for k in c if k in ("cfg","recipe","recipe_text","stream","known","fl","cl","ws","ws_rle")}, ensure_ascii=False)[:400])
ties=r.get("broken_ties") or r.get("no_longer_checks") or []
print("   broken ties:", sorted({b["kind"]+":"+b["name"] for b in ties})[:8])
PY
  done
done
rm -rf "$SCR" "$ROOT/replays/C08"
