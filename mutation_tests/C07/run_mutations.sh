#!/bin/bash
# usage: run_mutations.sh [m1 m2 ...]   (run from anywhere; needs /tmp/work/repo_snap12)
HERE=$(cd "$(dirname "$0")" && pwd); ROOT=$(cd "$HERE/../.." && pwd)
# m*.diff: mutations (patch -p1); revert_*.rdiff: `git show <fix commit>` applied in reverse (patch -R -p1)
MUTS=${@:-$(ls $HERE/*.diff $HERE/*.rdiff | xargs -n1 basename | sed 's/\.r\?diff$//' | sort -V)}
for m in $MUTS; do
  rm -rf /tmp/work/mut_C07; cp -r /tmp/work/repo_snap12 /tmp/work/mut_C07
  if [ -f $HERE/$m.rdiff ]; then
    (cd /tmp/work/mut_C07 && patch -s -R -p1 < $HERE/$m.rdiff) || { echo "$m: PATCH FAILED"; continue; }
  else
    (cd /tmp/work/mut_C07 && patch -s -p1 < $HERE/$m.diff) || { echo "$m: PATCH FAILED"; continue; }
  fi
  PYTHONPATH=/tmp/work/mut_C07 /venv/bin/python -c "import snowfakery.api" 2>/dev/null || { echo "$m: not importable"; continue; }
  rm -rf $ROOT/replays/C07
  out=$(cd $ROOT && VERIF_REPO=/tmp/work/mut_C07 ./check C07 quick 2>&1 | grep -v WARNING)
  echo "== $m: $(echo "$out" | grep -c '^VIOLATION') VIOLATION line(s)"
  echo "$out" | grep '^VIOLATION\|^check C07'
  for r in $ROOT/replays/C07/*.json; do
    [ -f "$r" ] && /venv/bin/python - "$r" <<'PY'
import json,sys
r=json.load(open(sys.argv[1]))
if r["kind"]=="failing-input":
    c=r["case"]; c={k:v for k,v in c.items() if k not in("plan",)}
    print("   failing-input", r["signature"], "|", r["what"][:150], "|", json.dumps(c)[:300])
    print("   broken ties:", sorted({b["kind"]+":"+b["name"] for b in r.get("broken_ties",[])})[:6])
else:
    print("   ", r["kind"], sorted({b["kind"]+":"+b["name"] for b in r.get("no_longer_checks",[])})[:6])
PY
  done
done
rm -rf /tmp/work/mut_C07 $ROOT/replays/C07
# restore the pins / build products for the unchanged snapshot
(cd $ROOT && VERIF_REPO=/tmp/work/repo_snap12 ./check C07 quick 2>&1 | grep '^check C07\|^VIOLATION')
