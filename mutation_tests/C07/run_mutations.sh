#!/bin/bash
# usage: run_mutations.sh [m1 m2 ...]   (run from anywhere; needs /tmp/work/repo_snap)
HERE=$(cd "$(dirname "$0")" && pwd); ROOT=$(cd "$HERE/../.." && pwd)
MUTS=${@:-$(ls $HERE/*.diff | xargs -n1 basename | sed 's/.diff//' | sort -V)}
for m in $MUTS; do
  rm -rf /tmp/work/mut_C07; cp -r /tmp/work/repo_snap /tmp/work/mut_C07
  (cd /tmp/work/mut_C07 && patch -s -p1 < $HERE/$m.diff) || { echo "$m: PATCH FAILED"; continue; }
  PYTHONPATH=/tmp/work/mut_C07 /venv/bin/python -c "import snowfakery.api" 2>/dev/null || { echo "$m: not importable"; continue; }
  rm -rf $ROOT/replays/C07
  out=$(cd $ROOT && VERIF_REPO=/tmp/work/mut_C07 ./check C07 quick 2>&1 | grep -v WARNING)
  echo "== $m: $(echo "$out" | grep -c '^VIOLATION') VIOLATION line(s)"
  echo "$out" | grep '^VIOLATION\|^check C07'
  for r in $ROOT/replays/C07/*.json; do
    [ -f "$r" ] && /venv/bin/python - "$r" <<'PY'
import json,sys
r=json.load(open(sys.argv[1]))
if r["kind"]=="failing-input":
    c=r["case"]; c={k:v for k,v in c.items() if k not in("plan",)}
    print("   failing-input", r["signature"], "|", r["what"][:150], "|", json.dumps(c)[:300])
    print("   broken ties:", sorted({b["kind"]+":"+b["name"] for b in r.get("broken_ties",[])})[:6])
else:
    print("   ", r["kind"], sorted({b["kind"]+":"+b["name"] for b in r.get("no_longer_checks",[])})[:6])
PY
  done
done
rm -rf /tmp/work/mut_C07 $ROOT/replays/C07
# restore the pins / build products for the unchanged snapshot
(cd $ROOT && VERIF_REPO=/tmp/work/repo_snap ./check C07 quick 2>&1 | grep '^check C07\|^VIOLATION')
